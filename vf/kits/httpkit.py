"""helpers shared by the HTTP properties (C13-C19): feeding incremental parsers in pieces and collecting observables"""
from hio.core.http import httping

CR, LF = 13, 10


def drain(gen, raw, pieces, single):
    """feed pieces into raw, after each piece pull results from the generator until it yields None.
    single=True: the parser yields one result and is done (parseLeader, parseChunk, parseBom)."""
    out = []
    exc = None
    done = False
    try:
        for p in pieces:
            raw.extend(p)
            if done:
                continue
            while True:
                r = next(gen)
                if r is None:
                    break
                out.append(r)
                if single:
                    done = True
                    break
    except StopIteration:
        pass
    except Exception as ex:      # noqa
        from vf.engine.symx_guard import guard
        guard(ex)
        exc = type(ex).__name__
    return out, exc, bytes(raw)


def norm(x):
    if isinstance(x, (bytes, bytearray)):
        return bytes(x)
    if isinstance(x, tuple):
        return tuple(norm(y) for y in x)
    if hasattr(x, 'items'):
        return tuple((norm(k), norm(v)) for k, v in x.items())
    return x


def run_primitive(kind, eols, pieces):
    raw = bytearray()
    if kind == 'line':
        g = httping.parseLine(raw=raw, eols=eols, kind='line')
        out, exc, rest = drain(g, raw, pieces, single=False)
    elif kind == 'leader':
        g = httping.parseLeader(raw=raw, eols=eols, kind='leader')
        out, exc, rest = drain(g, raw, pieces, single=True)
    elif kind == 'chunk':
        g = httping.parseChunk(raw=raw)
        out, exc, rest = drain(g, raw, pieces, single=True)
    else:
        raise ValueError(kind)
    return [norm(x) for x in out], exc, rest


def parsent_obs(p):
    """observable result of a Requestant / Respondent after parsing"""
    hd = tuple(sorted((k.lower(), v) for k, v in p.headers.items())) if p.headers is not None else None
    tr = tuple(sorted((k.lower(), v) for k, v in p.trails.items())) if getattr(p, 'trails', None) else None
    return dict(ended=bool(p.ended), errored=bool(p.errored), error_kind=(p.error or '')[:24] if p.errored else '',
                method=getattr(p, 'method', None), url=getattr(p, 'url', None), path=getattr(p, 'path', None),
                query=getattr(p, 'query', None), version=p.version, status=getattr(p, 'status', None), reason=getattr(p, 'reason', None),
                headers=hd, body=bytes(p.body), trails=tr, parms=norm(p.parms) if p.parms else None,
                persisted=p.persisted, chunked=p.chunked, length=p.length)


def feed_messages(make, pieces, nmsgs, close_at_end=False):
    """feed pieces to a Requestant/Respondent made by make(msg); parse up to nmsgs pipelined messages.
    returns (list of observations, exception name, leftover)"""
    msg = bytearray()
    p = make(msg)
    obs = []
    exc = None
    def pump():
        while len(obs) < nmsgs:
            if p.parser is None:
                if not msg:
                    return
                p.makeParser()
            p.parse()
            if p.parser is None and p.ended:
                obs.append(parsent_obs(p))
                if p.errored:
                    return
                continue
            return
    try:
        for i, piece in enumerate(pieces):
            msg.extend(piece)
            pump()
        if close_at_end:         # the peer closes after the last byte
            p.close()
            pump()
    except Exception as ex:      # noqa
        from vf.engine.symx_guard import guard
        guard(ex)
        exc = type(ex).__name__
    return obs, exc, bytes(msg)
