"""data-object classes for C28 in a module that postpones annotation evaluation, as every hio module does"""
from __future__ import annotations
from dataclasses import dataclass, field
from typing import Any
from hio.help import doming


@doming.registerify
@dataclass
class FInner(doming.RegDom):
    a: int = 1
    s: str = ''


@doming.registerify
@dataclass
class FOuter(doming.RegDom):
    i: FInner = None
    n: int = 0
    s: str = ''
    l: list = None
    d: dict = None
    x: Any = None


@doming.registerify
@dataclass(frozen=True)
class FIceInner(doming.IceRegDom):
    a: int = 1
    s: str = ''


@doming.registerify
@dataclass(frozen=True)
class FIceOuter(doming.IceRegDom):
    i: FIceInner = None
    n: int = 0
    s: str = ''
    l: list = None
    d: dict = None
    x: Any = None


@doming.namify
@doming.registerify
@dataclass
class FTymeOuter(doming.TymeDom):
    i: FInner = None
    n: int = 0
    s: str = ''
    l: list = None
    d: dict = None
    x: Any = None

    def __hash__(self):
        return hash(self._astuple())


@dataclass
class FRawOuter(doming.RawDom):
    i: FInner = None
    n: int = 0
    s: str = ''
    l: list = None
    d: dict = None
    x: Any = None


FAMILIES = {'reg': (FOuter, FInner), 'ice': (FIceOuter, FIceInner), 'tyme': (FTymeOuter, FInner), 'raw': (FRawOuter, FInner)}
