"""store construction for the durable-store properties (C23, C24): FakeLMDB under the symbolic engine, the REAL lmdb in
every concrete run (counterexample replay, path-fidelity audit), so the stub can never be the source of a verdict."""
import os
import shutil
import tempfile
from hio.base import during

_REAL = during.lmdb
_dirs = []


def make_subery(sym, path='p', fresh=True):
    """a Subery whose state is constructed directly (no Filer directory logic: that is C29's subject) over FakeLMDB,
    or - in a concrete run - a real Subery in a private directory under /dev/shm"""
    if getattr(sym, 'concrete', False):
        during.lmdb = _REAL
        if fresh or not _dirs:
            d = tempfile.mkdtemp(prefix='vf-lmdb-', dir='/dev/shm')
            _dirs.append(d)
        db = during.Subery(name=path, headDirPath=_dirs[-1], reopen=True, clear=False, reuse=True)
        return db
    from vf.stubs import fakelmdb
    during.lmdb = fakelmdb
    if fresh:
        fakelmdb._STORES.clear()
    db = during.Subery.__new__(during.Subery)
    db.env = fakelmdb.open(path)
    db.opened = True
    db.path = path
    db.temp = False
    db._version = None
    db.readonly = False
    db.cans = during.DomSuber(db=db, subkey='cans.')
    db.drqs = during.DomIoSuber(db=db, subkey='drqs.')
    db.dsqs = during.DomIoSetSuber(db=db, subkey='dsqs.')
    return db


def close_subery(sym, db):
    if getattr(sym, 'concrete', False):
        try:
            db.close()
        except Exception:      # noqa
            pass
    else:
        db.env.close()
        db.opened = False


def cleanup():
    during.lmdb = _REAL
    while _dirs:
        shutil.rmtree(_dirs.pop(), ignore_errors=True)
