"""Scheduler kit shared by C01-C07 and C30: scripted doers of the four kinds hio supports, an event trace,
and the monitors / reference model of the documented cycle semantics.  No CrossHair import here: the same
code runs under the symbolic engine and in concrete replays.
"""
from collections import deque
from hio.base import doing


class Boom(Exception):
    """the exception a scripted doer raises"""


# acts
CONT, RET, RAISE, KBD, REMOVE, EXTEND = 'cont', 'ret', 'raise', 'kbd', 'remove', 'extend'
REMOVE_AT, EXTEND_AT = 'remove-at', 'extend-at'
KINDS = ('plain', 'gen', 'func', 'meth')


class Script:
    """behaviour of one doer: at recur step i (0-based) it performs faults[i] if present, returns `ret` when
    i >= fin, else yields tocks[i] (None/0 = asap).  `fin`, tocks, ret may be symbolic."""
    def __init__(self, name, fin=0, ret=True, tocks=(), enter_raises=False, tock0=0.0, enter_returns=False):
        self.name = name
        self.fin = fin
        self.ret = ret
        self.tocks = list(tocks)
        self.enter_raises = enter_raises
        self.enter_returns = enter_returns   # generator-function kinds only: return `ret` before the first yield
        self.tock0 = tock0          # the doer's own .tock attribute (what plain doers yield by default)
        self.faults = {}            # step -> (act, arg)
        self.on_cease = None        # (act, arg) performed from inside the cease hook (class doers only)

    def act(self, step):
        if step in self.faults:
            return self.faults[step]
        if step >= self.fin:
            return (RET, self.ret)
        return (CONT, None)

    def tock_after(self, step):
        if step < len(self.tocks):
            return self.tocks[step]
        return 0.0


class World:
    def __init__(self):
        self.trace = []      # (name, event, tyme)
        self.host = {}       # doer name -> scheduler (Doist/DoDoer) it acts upon
        self.doers = {}      # name -> doer object
        self.dogs = []       # generator objects created (leak detection)
        self.top = None      # the Doist
        self.watch_done = ()  # names whose .done flag is snapshotted at every recur event
        self.flags = []

    def ev(self, name, what, tyme=None):
        self.trace.append((name, what, tyme))
        if what == 'recur' and self.watch_done:
            self.flags.append((name, tuple((n, done_of(self.doers[n])) for n in self.watch_done)))

    def perform(self, name, act, arg):
        if act in (REMOVE_AT, EXTEND_AT):
            return self.perform_at(name, REMOVE if act == REMOVE_AT else EXTEND, arg[0], arg[1])
        if act == RAISE:
            raise Boom(name)
        if act == KBD:
            raise KeyboardInterrupt()
        if act == REMOVE:
            self.ev(name, 'call-remove', (tuple(arg), self.listing(name)))
            try:
                self.host[name].remove([self.doers[a] for a in arg])
            finally:
                self.ev(name, 'ret-remove', (tuple(arg), self.listing(name)))
        if act == EXTEND:
            self.ev(name, 'call-extend', (tuple(arg), self.listing(name)))
            try:
                self.host[name].extend([self.doers[a] for a in arg])
            finally:
                self.ev(name, 'ret-extend', (tuple(arg), self.listing(name)))

    def perform_at(self, name, act, hostname, arg):
        """like perform but acting on a named scheduler (a controller doer managing a DoDoer it is not a child of)"""
        saved = self.host.get(name)
        self.host[name] = self.doers[hostname] if hostname else self.top
        try:
            self.perform(name, act, arg)
        finally:
            self.host[name] = saved

    def name_of(self, d):
        for n, x in self.doers.items():
            if x is d:
                return n
        return '?'

    def listing(self, name):
        """names in the .doers list of the scheduler that `name` acts upon"""
        return tuple(self.name_of(d) for d in self.host[name].doers)

    def names(self, event):
        return [n for (n, e, t) in self.trace if e == event]


class PlainDoer(doing.Doer):
    """kind 'plain': Doer subclass with an ordinary recur method; hio's Doer.do owns the lifecycle skeleton"""
    def __init__(self, world, script, **kw):
        super().__init__(tock=script.tock0, **kw)
        self.w = world
        self.s = script
        self.step = 0

    def __call__(self, *pa, **kwa):
        g = super().__call__(*pa, **kwa)
        self.w.dogs.append((self.s.name, g))     # strong reference: garbage collection must not mask a leaked dog
        return g

    def enter(self, *, temp=None):
        self.w.ev(self.s.name, 'enter', self.tyme)
        if self.s.enter_raises:
            raise Boom(self.s.name)

    def recur(self, tyme):
        self.w.ev(self.s.name, 'recur', (tyme, self.tyme))
        act, arg = self.s.act(self.step)
        step = self.step
        self.step += 1
        self.w.perform(self.s.name, act, arg)
        if act == RET:
            self.w.ev(self.s.name, 'return', True)
            return arg if arg else True    # a plain recur can only finish with a truthy value
        t = self.s.tock_after(step)
        self.tock = t if t is not None else 0.0
        return False

    def clean(self):
        self.w.ev(self.s.name, 'clean')

    def cease(self):
        self.w.ev(self.s.name, 'cease')
        if self.s.on_cease:
            self.w.perform(self.s.name, *self.s.on_cease)

    def abort(self, ex):
        self.w.ev(self.s.name, 'abort')

    def exit(self):
        self.w.ev(self.s.name, 'exit')


class GenDoer(PlainDoer):
    """kind 'gen': Doer subclass whose recur is a generator method (yield from delegation)"""
    def recur(self, tock=0.0):
        t = tock
        while True:
            tyme = yield t
            self.w.ev(self.s.name, 'recur', (tyme, self.tyme))
            act, arg = self.s.act(self.step)
            step = self.step
            self.step += 1
            self.w.perform(self.s.name, act, arg)
            if act == RET:
                self.w.ev(self.s.name, 'return', arg)
                return arg
            t = self.s.tock_after(step)


def gfun(tymth, tock=0.0, world=None, script=None, **opts):
    """kinds 'func'/'meth': generator function; the try/except/else/finally skeleton is user code here"""
    w, s = world, script
    step = 0
    ret = None
    try:
        w.ev(s.name, 'enter', tymth())
        if s.enter_raises:
            raise Boom(s.name)
        if s.enter_returns:
            w.ev(s.name, 'return', s.ret)
            ret = s.ret
            return ret
        t = tock
        while True:
            tyme = yield t
            w.ev(s.name, 'recur', (tyme, tymth()))
            act, arg = s.act(step)
            cur = step
            step += 1
            w.perform(s.name, act, arg)
            if act == RET:
                w.ev(s.name, 'return', arg)
                ret = arg
                break
            t = s.tock_after(cur)
    except GeneratorExit:
        w.ev(s.name, 'cease')
    except Exception:
        w.ev(s.name, 'abort')
        raise
    else:
        w.ev(s.name, 'clean')
    finally:
        w.ev(s.name, 'exit')
    return ret


def gfun_recorded(tymth, tock=0.0, world=None, script=None, **opts):
    """what gets doify'd: returns the gfun generator after taking a strong reference to it"""
    g = gfun(tymth, tock=tock, world=world, script=script, **opts)
    world.dogs.append((script.name, g))
    return g


class Holder:
    def meth(self, tymth, tock=0.0, world=None, script=None, **opts):
        g = gfun(tymth, tock=tock, world=world, script=script)
        world.dogs.append((script.name, g))
        return g


class Group(doing.DoDoer):
    """a DoDoer that logs its own lifecycle events"""
    def __init__(self, world, name, **kw):
        super().__init__(**kw)
        self.w = world
        self.gname = name

    def __call__(self, *pa, **kwa):
        g = super().__call__(*pa, **kwa)
        self.w.dogs.append((self.gname, g))
        return g

    def enter(self, doers=None, *, temp=None):
        if doers is None:
            self.w.ev(self.gname, 'enter', self.tyme)
        return super().enter(doers=doers, temp=temp)

    def recur(self, tyme, deeds=None):
        self.w.ev(self.gname, 'grecur', tyme)
        return super().recur(tyme, deeds=deeds)

    def clean(self):
        self.w.ev(self.gname, 'clean')

    def cease(self):
        self.w.ev(self.gname, 'cease')

    def abort(self, ex):
        self.w.ev(self.gname, 'abort')

    def exit(self, deeds=None):
        super().exit(deeds=deeds)
        if deeds is None:
            self.w.ev(self.gname, 'exit')


def make(kind, world, script):
    if kind == 'plain':
        d = PlainDoer(world, script)
    elif kind == 'gen':
        d = GenDoer(world, script)
    elif kind == 'func':
        d = doing.doify(gfun_recorded, name=script.name, tock=script.tock0, world=world, script=script)
    elif kind == 'meth':
        d = doing.doify(Holder().meth, name=script.name, tock=script.tock0, world=world, script=script)
    else:
        raise ValueError(kind)
    world.doers[script.name] = d
    return d


def done_of(d):
    return d.done


def leaked(world):
    """names of doers whose generator is still suspended (started, not finished)"""
    return [n for (n, g) in world.dogs if g.gi_frame is not None and g.gi_frame.f_lasti >= 0]


# ---------------------------------------------------------------------------------------------------
# shapes: nested lists of leaf names; a sub-list is a tock-0 DoDoer group

def build(world, shape, scripts, kinds, group_kw=None, prefix='G'):
    """returns (top_doers, parents: name -> parent group name or None, order: names in depth-first order)"""
    parents = {}
    counter = [0]

    def rec(items, parent):
        out = []
        for it in items:
            if isinstance(it, (list, tuple)):
                counter[0] += 1
                gname = '%s%d' % (prefix, counter[0])
                parents[gname] = parent
                g = Group(world, gname, tock=0.0, **(group_kw or {}))
                world.doers[gname] = g
                g.doers = rec(it, gname)
                out.append(g)
            else:
                parents[it] = parent
                d = make(kinds[it], world, scripts[it])
                out.append(d)
        return out
    top = rec(shape, None)
    return top, parents


def leaves(shape):
    out = []
    for it in shape:
        if isinstance(it, (list, tuple)):
            out += leaves(it)
        else:
            out.append(it)
    return out


# ---------------------------------------------------------------------------------------------------
# monitors

def lifecycle_violation(trace, names, hio_owned):
    """C01 automaton per doer.  hio_owned(name) -> True when hio's Doer.do/DoDoer.do owns the skeleton
    (full automaton); for generator-function doers the scheduler is only held to: started once, finished
    exactly once (the generator's own finally ran: 'exit' once), nothing after."""
    for n in names:
        ev = [e for (m, e, t) in trace if m == n and e in ('enter', 'recur', 'grecur', 'clean', 'cease', 'abort', 'exit')]
        if not ev:
            continue
        ev = ['recur' if e == 'grecur' else e for e in ev]
        if ev[0] != 'enter':
            return n, "first event is %s" % ev[0]
        if ev.count('enter') != 1:
            return n, "entered %d times" % ev.count('enter')
        if ev.count('exit') != 1:
            return n, "exit ran %d times: %s" % (ev.count('exit'), ev)
        if ev[-1] != 'exit':
            return n, "events after exit: %s" % (ev,)
        mid = ev[1:-1]
        k = 0
        while k < len(mid) and mid[k] == 'recur':
            k += 1
        tail = mid[k:]
        if hio_owned(n):
            if len(tail) != 1 or tail[0] not in ('clean', 'cease', 'abort'):
                return n, "not exactly one of clean/cease/abort between recur steps and exit: %s" % (ev,)
        else:
            if len(tail) > 1 or (tail and tail[0] not in ('clean', 'cease', 'abort')):
                return n, "malformed tail %s" % (ev,)
    return None


class Model:
    """reference model of the documented virtual-time cycle semantics over LEAF doers (DESIGN C03):
    T_c = T_{c-1} + tock; a leaf runs in cycle c iff alive and due <= T_c, at most once, in enter order,
    observing T_c; after a run due' = T_c + tock if the yield is falsy else due' = due + t."""
    def __init__(self, start, tock, order, scripts):
        self.T = start
        self.tock = tock
        self.order = list(order)
        self.s = scripts
        self.due = {n: start for n in order}
        self.step = {n: 0 for n in order}
        self.alive = {n: True for n in order}
        self.done = {n: False for n in order}
        self.events = []      # (name, T)

    def cycle(self):
        for n in self.order:
            if self.alive[n] and self.due[n] <= self.T:
                self.events.append((n, self.T))
                sc = self.s[n]
                i = self.step[n]
                self.step[n] += 1
                if i >= sc.fin:
                    self.alive[n] = False
                    self.done[n] = sc.ret
                else:
                    t = sc.tock_after(i)
                    if not t:
                        self.due[n] = self.T + self.tock
                    else:
                        self.due[n] = self.due[n] + t
        self.T = self.T + self.tock

    def any_alive(self):
        return any(self.alive.values())


class Recorder:
    def __init__(self, sym):
        self.sym = sym
        self.vals = {}
        self.replaying = False

    def _draw(self, kind, name, *a, **kw):
        if name in self.vals:
            return self.vals[name]
        v = getattr(self.sym, kind)(name, *a, **kw)
        self.vals[name] = v
        return v

    def int(self, name, *a, **kw): return self._draw('int', name, *a, **kw)
    def cint(self, name, *a, **kw): return self._draw('cint', name, *a, **kw)
    def real(self, name, *a, **kw): return self._draw('real', name, *a, **kw)
    def bool(self, name, *a, **kw): return self._draw('bool', name, *a, **kw)
    def cbool(self, name, *a, **kw): return self._draw('cbool', name, *a, **kw)
    def choice(self, name, seq): return self._draw('choice', name, seq)
    def constrain(self, *c): return self.sym.constrain(*c)
    def assume(self, c): return self.sym.assume(c)
    def cover(self, t): return self.sym.cover(t)
    def cover_if(self, t, *c): return self.sym.cover_if(t, *c)
