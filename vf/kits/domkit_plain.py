"""data-object classes for C28, annotations evaluated eagerly (no `from __future__ import annotations`)"""
from dataclasses import dataclass, field
from typing import Any
from hio.help import doming


@doming.registerify
@dataclass
class PInner(doming.RegDom):
    a: int = 1
    s: str = ''


@doming.registerify
@dataclass
class POuter(doming.RegDom):
    i: PInner = None
    n: int = 0
    s: str = ''
    l: list = None
    d: dict = None
    x: Any = None


@doming.registerify
@dataclass(frozen=True)
class PIceInner(doming.IceRegDom):
    a: int = 1
    s: str = ''


@doming.registerify
@dataclass(frozen=True)
class PIceOuter(doming.IceRegDom):
    i: PIceInner = None
    n: int = 0
    s: str = ''
    l: list = None
    d: dict = None
    x: Any = None


@doming.namify
@doming.registerify
@dataclass
class PTymeOuter(doming.TymeDom):
    i: PInner = None
    n: int = 0
    s: str = ''
    l: list = None
    d: dict = None
    x: Any = None

    def __hash__(self):
        return hash(self._astuple())


@dataclass
class PRawOuter(doming.RawDom):
    i: PInner = None
    n: int = 0
    s: str = ''
    l: list = None
    d: dict = None
    x: Any = None


FAMILIES = {'reg': (POuter, PInner), 'ice': (PIceOuter, PIceInner), 'tyme': (PTymeOuter, PInner), 'raw': (PRawOuter, PInner)}
