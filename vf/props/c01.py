"""C01 — every doer runs a well-formed lifecycle on every exit path; also hosts the C02 oracle (forced exits
nested: reverse enter order, children before parent) since one exploration serves both."""
from vf.engine.base import Failure
from vf.kits import sched
from hio.base import doing

ID = 'C01'
EXPLANATION = ("Real Doist.do() over forests of scripted doers of the four kinds (plain Doer, generator-recur Doer, doify'd function, "
               "doify'd bound method) and logging DoDoers, with fault-budgeted scripts: the driver fixes (shape, faulting doer, act) per "
               "partition; the fault step, the completion step of every doer, the limit, the removal/extension targets and whether a "
               "freshly extended doer's enter raises are symbolic/solver-chosen. Acts: raise, KeyboardInterrupt, raise-in-enter, "
               "remove(other|self|several), extend([x,y]) with y's enter possibly raising, extend(present). A monitor automaton per doer "
               "checks enter (recur)* (clean|cease|abort) exit exactly once, nothing after exit, and every entered doer exited before "
               "do() returns/raises; generator objects are checked finished.")
FUNCTIONS = [('hio.base.doing', 'Doist.do'), ('hio.base.doing', 'Doist.enter'), ('hio.base.doing', 'Doist.recur'),
             ('hio.base.doing', 'Doist.exit'), ('hio.base.doing', 'Doist.extend'), ('hio.base.doing', 'Doist.remove'),
             ('hio.base.doing', 'Doer.do'), ('hio.base.doing', 'DoDoer.do'), ('hio.base.doing', 'DoDoer.enter'),
             ('hio.base.doing', 'DoDoer.recur'), ('hio.base.doing', 'DoDoer.exit'), ('hio.base.doing', 'DoDoer.extend'),
             ('hio.base.doing', 'DoDoer.remove'), ('hio.base.doing', 'doify')]
BOUNDS = {'quick': dict(max_fin=2, faults=1, max_limit=3, budget_s=120, audit_max=6),
          'thorough': dict(max_fin=3, faults=2, max_limit=4, budget_s=1200, audit_max=20)}
OUTSIDE = ['forests deeper than 2 / more than 4 leaves (+2 extended at run time)', 'more than `faults` faults per run',
           'real-time mode', 'Python >= 3.13 close() values',
           'for doify/doize generator FUNCTIONS the try/except/else/finally skeleton is user code: the scheduler is only held to start-once / '
           'finish-exactly-once / nothing-after (DESIGN C01 note)']
STUBS = []
ASSUMPTIONS = ['all yielded tocks are 0 (asap): timing is the subject of C03, not of the lifecycle', 'scheduler tock 1.0']
REQUIRED_TAGS = ['extend-from-cease-hook', 'controller-extends-idle-always-dodoer', 'raise-in-recur', 'raise-in-enter', 'raise-in-enter-during-extend', 'removed-while-due', 'limit-stop', 'kbd-interrupt',
                 'nested-child-raises', 'fault-mid-cycle-with-doers-on-both-sides', 'exit-after-extend-from-inside',
                 'parent-closed-with-live-children', 'self-remove']
RULE = 'tags name the exit paths of the statement: raise in recur/enter, enter failing during extend, removal, limit, KeyboardInterrupt, nested child raising'

SHAPES = {'flat4': ['a', 'b', 'c', 'd'], 'nest': ['a', ['b', 'c'], 'd'], 'nest2': [['a', ['b', 'c']], 'd'], 'flat2': ['a', 'b'],
          'alw': [['a', 'b', 'c'], 'd'], 'ctl': [['a', 'b'], 'd']}
KINDS = {'flat4': {'a': 'plain', 'b': 'gen', 'c': 'func', 'd': 'meth'}, 'nest': {'a': 'func', 'b': 'plain', 'c': 'gen', 'd': 'meth'},
         'nest2': {'a': 'gen', 'b': 'meth', 'c': 'plain', 'd': 'func'}, 'flat2': {'a': 'meth', 'b': 'plain'},
         'alw': {'a': 'gen', 'b': 'plain', 'c': 'meth', 'd': 'func'}, 'ctl': {'a': 'plain', 'b': 'func', 'd': 'gen'}}
SPARE_KINDS = {'x': 'plain', 'y': 'gen'}
ACTS = ['none', 'raise', 'kbd', 'enter-raise', 'remove', 'remove2', 'extend', 'extend-present']


def partitions(tier, oracle='c01'):
    ps = []
    for sh in ('flat4', 'nest', 'nest2'):
        names = sched.leaves(SHAPES[sh])
        ps.append(dict(name='%s-none' % sh, shape=sh, act='none', who=None, oracle=oracle))
        for who in names:
            for act in ACTS[1:]:
                ps.append(dict(name='%s-%s-%s' % (sh, act, who), shape=sh, act=act, who=who, oracle=oracle))
    if oracle == 'c01':
        # a class doer whose cease hook extends the scheduler that is force-closing it (a "flush" doer spawned at shutdown)
        for sh, who in (('flat4', 'a'), ('flat4', 'b'), ('nest', 'b'), ('nest', 'c'), ('nest2', 'c'), ('nest2', 'a')):
            ps.append(dict(name='%s-cease-extend-%s' % (sh, who), shape=sh, act='cease-extend', who=who, oracle=oracle))
    for act in ('none', 'ctl-extend', 'ctl-extend-raise', 'ctl-extend-remove-group', 'ctl-remove'):
        ps.append(dict(name='ctl-%s-d' % act, shape='ctl', act=act, who='d' if act != 'none' else None, oracle=oracle))
    b = BOUNDS[tier]
    for p in ps:
        p['max_fin'] = b['max_fin']
        p['max_limit'] = b['max_limit']
        p['faults'] = b['faults']
    if tier == 'thorough':
        # second fault: doer and act fixed by the driver too
        extra = []
        for p in ps:
            if p['act'] in ('remove', 'extend', 'raise') and p['shape'] != 'flat4':
                names = sched.leaves(SHAPES[p['shape']])
                for who2 in names:
                    for act2 in ('raise', 'remove'):
                        extra.append(dict(p, name='%s+%s-%s' % (p['name'], act2, who2), act2=act2, who2=who2))
        ps += extra
    return ps


def siblings(shape, who):
    """leaf doers hosted by the same scheduler as `who` (including who)"""
    def rec(items):
        flat = [it for it in items if not isinstance(it, list)]
        if who in flat:
            return flat
        for it in items:
            if isinstance(it, list):
                r = rec(it)
                if r:
                    return r
        return None
    return rec(shape)


def run(sym, part):
    shape = SHAPES[part['shape']]
    kinds = dict(KINDS[part['shape']])
    kinds.update(SPARE_KINDS)
    names = sched.leaves(shape)
    w = sched.World()
    scripts = {}
    for n in names:
        # each doer either completes at its first recur or keeps running past every fault step
        early = sym.cbool('early_' + n) if n != part['who'] else False
        scripts[n] = sched.Script(n, fin=0 if early else part['max_fin'] + 1, ret=True)
    for n in ('x', 'y'):
        scripts[n] = sched.Script(n, fin=1, ret=True)
    act, who = part['act'], part['who']
    info = dict(act=act, who=who)

    def install(act, who, tag):
        if act == 'none':
            return
        if act == 'enter-raise':
            scripts[who].enter_raises = True
            return
        if act == 'cease-extend':
            scripts[who].on_cease = (sched.EXTEND, ['x'])
            sym.cover('extend-from-cease-hook')
            return
        step = sym.cint('fstep' + tag, 0, part['max_fin'])
        if act == 'raise':
            scripts[who].faults[step] = (sched.RAISE, None)
        elif act == 'kbd':
            scripts[who].faults[step] = (sched.KBD, None)
        elif act == 'remove':
            target = sym.choice('target' + tag, siblings(shape, who) + [n for n in names if n not in siblings(shape, who)][:1])
            info['target' + tag] = target
            scripts[who].faults[step] = (sched.REMOVE, [target])
        elif act == 'remove2':
            sib = siblings(shape, who)
            t1 = sym.choice('target1' + tag, sib)
            t2 = sym.choice('target2' + tag, [n for n in sib if n != t1] or ['x'])    # duplicate arguments are C06's subject
            info['targets'] = (t1, t2)
            scripts[who].faults[step] = (sched.REMOVE, [t1, t2])
        elif act == 'extend':
            scripts['y'].enter_raises = False if part.get('no_enter_raise') else sym.cbool('y_enter_raises' + tag)
            info['y_enter_raises'] = scripts['y'].enter_raises
            scripts[who].faults[step] = (sched.EXTEND, ['x', 'y'])
        elif act == 'remove-dup':
            t1 = sym.choice('target' + tag, siblings(shape, who))
            scripts[who].faults[step] = (sched.REMOVE, [t1, t1])
        elif act == 'remove-absent':
            t1 = sym.choice('target' + tag, siblings(shape, who))
            scripts[who].faults[step] = (sched.REMOVE, ['x', t1])
        elif act == 'extend-dup':
            scripts[who].faults[step] = (sched.EXTEND, ['x', 'x', 'y'])
        elif act == 'extend-then-remove':
            scripts[who].faults[step] = (sched.EXTEND, ['x', 'y'])
            scripts[who].faults[step + 1] = (sched.REMOVE, [sym.choice('target' + tag, ['x', 'y', who])])
        elif act == 'ctl-extend':           # controller d manages the always-DoDoer G1 from outside
            scripts[who].faults[step] = (sched.EXTEND_AT, ('G1', ['x', 'y']))
        elif act == 'ctl-extend-raise':
            scripts[who].faults[step] = (sched.EXTEND_AT, ('G1', ['x', 'y']))
            scripts[who].faults[step + 1 + sym.cint('gap' + tag, 0, 1)] = (sched.RAISE, None)
        elif act == 'ctl-extend-remove-group':
            scripts[who].faults[step] = (sched.EXTEND_AT, ('G1', ['x', 'y']))
            scripts[who].faults[step + 1 + sym.cint('gap' + tag, 0, 1)] = (sched.REMOVE_AT, (None, ['G1']))
        elif act == 'ctl-remove':
            scripts[who].faults[step] = (sched.REMOVE_AT, ('G1', [sym.choice('target' + tag, ['a', 'b'])]))
        elif act == 'extend-present':
            other = sym.choice('present' + tag, siblings(shape, who))      # a doer already present in the same scheduler
            scripts[who].faults[step] = (sched.EXTEND, [other, 'x'])
    install(act, who, '')
    if part.get('act2'):
        install(part['act2'], part['who2'], '2')
    top, parents = sched.build(w, shape, scripts, kinds, group_kw=dict(always=True) if part['shape'] in ('alw', 'ctl') else None)
    for n in ('x', 'y'):
        sched.make(kinds[n], w, scripts[n])
        parents[n] = None
    # every doer acts on the scheduler that hosts it
    lim = sym.cint('limit', 1 if part['shape'] in ('alw', 'ctl') else 0, part['max_limit'] + (2 if part['shape'] == 'ctl' else 0))
    doist = doing.Doist(tock=1.0, real=False, limit=(float(lim) if lim else None), doers=top)
    w.top = doist
    w.doers['G0'] = doist
    for n in names:
        w.host[n] = w.doers[parents[n]] if parents[n] else doist
    for n in ('x', 'y'):     # spares join the host of the extender
        if who:
            parents[n] = 'G1' if act.startswith('ctl-') else parents[who]
    groups = [g for g in parents if g.startswith('G')]
    info.update(names=names, groups=groups, parents=parents, kinds=kinds, scripts=scripts, limit=lim)
    orig = doist.recur
    count = [0]

    def counted(deeds=None):
        count[0] += 1
        if count[0] > 4 * part['max_fin'] + part['max_limit'] + 8:
            raise RuntimeError('runaway')
        w.ev('*', 'cycle', count[0])
        return orig(deeds)
    doist.recur = counted
    exc = None
    try:
        doist.do()
    except sched.Boom as ex:
        exc = 'Boom'
    except KeyboardInterrupt:
        exc = 'KeyboardInterrupt'
    except Exception as ex:
        exc = 'unexpected:' + type(ex).__name__
        info['exc_text'] = '%s: %s' % (type(ex).__name__, ex)
    w.ev('*', 'returned', exc)
    info['exc'] = exc
    info['doist'] = doist
    return w, info


def hio_owned(info):
    def f(n):
        return n.startswith('G') or info['kinds'].get(n) in ('plain', 'gen')
    return f


def tags(sym, w, info, part):
    act = part['act']
    tr = w.trace
    recurred = set(n for (n, e, t) in tr if e == 'recur')
    if act == 'raise' and any(e == 'abort' for (n, e, t) in tr):
        sym.cover('raise-in-recur')
        if info['parents'].get(part['who']):
            sym.cover('nested-child-raises')
        # mid-cycle: some doer recurred before and some other is still due after the raiser in that cycle
        names = info['names']
        i = names.index(part['who'])
        if 0 < i < len(names) - 1:
            sym.cover('fault-mid-cycle-with-doers-on-both-sides')
    if act == 'enter-raise':
        sym.cover('raise-in-enter')
    if act.startswith('ctl-extend') and any(n == 'x' and e == 'enter' for (n, e, t) in tr):
        k = [i for i, (n, e, t) in enumerate(tr) if e == 'call-extend'][0]
        if all(any(m == c and e == 'exit' for (m, e, t) in tr[:k]) for c in ('a', 'b')):
            sym.cover('controller-extends-idle-always-dodoer')
    if act == 'extend' and info.get('y_enter_raises') and any(n == 'y' and e == 'enter' for (n, e, t) in tr):
        sym.cover('raise-in-enter-during-extend')
    if act == 'extend' and any(n == 'x' and e == 'enter' for (n, e, t) in tr) and any(n == 'x' and e == 'cease' for (n, e, t) in tr):
        sym.cover('exit-after-extend-from-inside')
    if act in ('remove', 'remove2'):
        for (n, e, t) in tr:
            if e == 'ret-remove':
                if part['who'] in t[0]:
                    sym.cover('self-remove')
                if any(x != part['who'] for x in t[0]):
                    sym.cover('removed-while-due')
    if act == 'kbd' and info['exc'] is None and any(e == 'recur' for (n, e, t) in tr):
        sym.cover('kbd-interrupt')
    if info['limit'] and info['doist'].done is False and info['exc'] is None and act != 'kbd':
        sym.cover('limit-stop')
    for g in info['groups']:
        if any(n == g and e == 'cease' for (n, e, t) in tr) and any(info['parents'].get(n) == g and e == 'cease' for (n, e, t) in tr):
            sym.cover('parent-closed-with-live-children')


def oracle_c01(w, info, part):
    everyone = info['names'] + ['x', 'y'] + info['groups']
    v = sched.lifecycle_violation(w.trace, everyone, hio_owned(info))
    if v:
        n, what = v
        kind = 'DoDoer' if n.startswith('G') else info['kinds'][n]
        role = 'faulting-doer' if n == part['who'] else ('extended-doer' if n in ('x', 'y') else 'other-doer')
        return Failure('lifecycle:%s:%s:%s' % (part['act'], role, 'hio-skeleton' if hio_owned(info)(n) else 'generator-function'),
                       lambda: 'doer %s (%s): %s; trace=%r' % (n, kind, what, [(m, e) for (m, e, t) in w.trace]))
    lk = sched.leaked(w)
    if lk:
        return Failure('lifecycle:%s:generator-left-suspended' % part['act'], lambda: 'generators of %r still suspended after do() returned; trace=%r' % (lk, [(m, e) for (m, e, t) in w.trace]))
    # nothing after the run returned; every entered doer has exited before 'returned'
    k = [i for i, (n, e, t) in enumerate(w.trace) if e == 'returned'][0]
    if k != len(w.trace) - 1:
        return Failure('lifecycle:%s:events-after-return' % part['act'], lambda: 'events after do() returned: %r' % (w.trace[k:],))
    return None


def episodes(w):
    """split forced exits into teardown episodes: one per remove() call window and one for everything else"""
    eps = []
    cur = None
    rest = []
    depth = 0
    for (n, e, t) in w.trace:
        if e == 'call-remove':
            depth += 1
            if depth == 1:
                cur = []
            continue
        if e == 'ret-remove':
            depth -= 1
            if depth == 0:
                eps.append(('remove', cur))
                cur = None
            continue
        (cur if cur is not None else rest).append((n, e, t))
    eps.append(('stop', rest))
    return eps


def oracle_c02(w, info, part):
    """per scheduler (the Doist and every DoDoer): within each teardown episode the exits of its force-closed direct
    children come in reverse of their enter order; a DoDoer's children exit before the DoDoer itself; every entered
    doer is exited before do() returns or raises"""
    parents = info['parents']
    enter_order = [n for (n, e, t) in w.trace if e == 'enter']
    scheds = [None] + info['groups']
    # cycle order under the known extend-from-inside behaviour: new doers sit immediately before their extender
    defect_order = {}
    for s_ in scheds:
        kids = [n for n in enter_order if parents.get(n) == s_]
        d = [n for n in kids if n not in ('x', 'y')]
        for (n, e, t) in w.trace:
            if e == 'ret-extend' and parents.get(n) == s_:
                new = [a for a in t[0] if a in kids and a not in d]
                new = [a for i, a in enumerate(new) if a not in new[:i]]
                k = d.index(n) if n in d else len(d)
                d[k:k] = new
        defect_order[s_] = d + [n for n in kids if n not in d]
    for kind, evs in episodes(w):
        closed = [n for (n, e, t) in evs if e == 'cease']
        exits = [n for (n, e, t) in evs if e == 'exit']
        for s_ in scheds:
            kids = [n for n in enter_order if parents.get(n) == s_]
            forced = [n for n in exits if n in kids and n in closed]
            exp = [n for n in reversed(kids) if n in forced]
            if forced != exp:
                ext = any(e == 'ret-extend' for (n, e, t) in w.trace)
                cause = part['act'] if kind == 'stop' else 'remove-call'
                sig = 'exit-order:%s:%s' % (cause, 'DoDoer' if s_ else 'Doist')
                if ext and forced == [n for n in reversed(defect_order[s_]) if n in forced]:
                    sig = 'exit-order:doers-extended-from-inside-a-running-doer-exit-after-their-extender'
                return Failure(sig, lambda: 'scheduler %s: forced exits of its doers %r, reverse enter order would be %r (enter order %r); trace=%r' % (
                    s_ or 'Doist', forced, exp, kids, [(m, e) for (m, e, t) in w.trace]))
        for g in info['groups']:      # children before parent
            if g in exits:
                gi = len(exits) - 1 - exits[::-1].index(g)
                late = [n for n in exits[gi + 1:] if parents.get(n) == g]
                if late:
                    return Failure('exit-order:child-after-parent', lambda: 'children %r exit after their DoDoer %s' % (late, g))
    entered = set(enter_order)
    exited = set(n for (n, e, t) in w.trace if e == 'exit')
    if entered - exited:
        return Failure('exit-order:%s:never-exited' % part['act'], lambda: 'entered but never exited before do() returned: %r; trace=%r' % (
            sorted(entered - exited), [(m, e) for (m, e, t) in w.trace]))
    k = [i for i, (n, e, t) in enumerate(w.trace) if e == 'returned'][0]
    if k != len(w.trace) - 1:
        return Failure('exit-order:%s:exits-after-return' % part['act'], lambda: 'events after do() returned: %r' % (w.trace[k:],))
    if sched.leaked(w):
        return Failure('exit-order:%s:generator-left-suspended' % part['act'], lambda: 'generators still suspended after do() returned: %r' % (sched.leaked(w),))
    return None


def harness(sym, part):
    w, info = run(sym, part)
    tags(sym, w, info, part)
    if info['exc'] and info['exc'].startswith('unexpected:'):
        return Failure('unexpected-exception:%s:%s' % (part['act'], info['exc'][11:]),
                       lambda: 'do() raised %s; trace=%r' % (info.get('exc_text'), [(m, e) for (m, e, t) in w.trace]))
    if part.get('oracle', 'c01') == 'c01':
        return oracle_c01(w, info, part)
    return oracle_c02(w, info, part)


MUTANTS = [
    ('doer-do-exit-not-in-finally', 'hio/base/doing.py',
     "        else:  # clean context\n            self.clean()\n\n        finally:  # exit context, exit, unforced if normal exit of try, forced otherwise\n            self.exit()\n\n        # return value of yield from or StopIteration.value indicates completion\n        # python 3.13",
     "        else:  # clean context\n            self.clean()\n            self.exit()\n\n        # return value of yield from or StopIteration.value indicates completion\n        # python 3.13"),
    ('extend-batch-enter', 'hio/base/doing.py',
     "        for doer in doers:  # one at a time so already entered doers stay managed\n            if doer in self.doers:  # ensure unique\n                continue\n            deeds = self.enter(doers=[doer])  # provide fresh deed for new doer\n            self.doers.append(doer)\n            self.deeds.extend(deeds)\n\n\n    def remove(self, doers):\n        \"\"\"\n        Remove doers from .doers list and any associated deeds from .deeds deque.\n        Force close removed deeds.\n\n        Parameters::\n\n            doers is list of doers to remove.\n\n        \"\"\"\n        rdoers = []  # ensure in .doers and unique\n        for doer in doers:\n            if doer in self.doers and doer not in rdoers:\n                rdoers.append(doer)\n        rdeeds = deque()  # fresh deque for deeds to remove\n        edeeds = deque()  # deeds to remove found after marker so earlier in cycle\n        deeds = self.deeds  # edit update self.deeds in place\n        marked = False  # True means marker deed already passed\n        for i in range(len(deeds)):  # iterate once over each deed\n            dog, retyme, doer = deeds.popleft()\n            if not dog:  # reappend the run through once marker deed\n                deeds.append((dog, retyme, doer))\n                marked = True\n            elif doer in rdoers:  # found deed to remove and close\n                if marked:  # already ran this cycle so earlier in cycle order\n                    edeeds.append((dog, retyme, doer))\n                else:\n                    rdeeds.append((dog, retyme, doer))  # add to removal deque\n            else:  # keep deed do not remove and close\n                deeds.append((dog, retyme, doer))  # reappend\n        edeeds.extend(rdeeds)  # cycle order so exits are in reverse enter order\n        rdeeds = edeeds\n\n        for doer in rdoers:  # update .doers to remove rdoers\n            self.doers.remove(doer)\n\n        self.exit(deeds=rdeeds)\n\n\ndef doify",
     "        doers = [doer for doer in doers if doer not in self.doers]\n        deeds = self.enter(doers=doers)\n        self.doers.extend(doers)\n        self.deeds.extend(deeds)\n\n\n    def remove(self, doers):\n        rdoers = []  # ensure in .doers and unique\n        for doer in doers:\n            if doer in self.doers and doer not in rdoers:\n                rdoers.append(doer)\n        rdeeds = deque()\n        deeds = self.deeds\n        for i in range(len(deeds)):\n            dog, retyme, doer = deeds.popleft()\n            if not dog:\n                deeds.append((dog, retyme, doer))\n            elif doer in rdoers:\n                rdeeds.append((dog, retyme, doer))\n            else:\n                deeds.append((dog, retyme, doer))\n        for doer in rdoers:\n            self.doers.remove(doer)\n        self.exit(deeds=rdeeds)\n\n\ndef doify"),
]
