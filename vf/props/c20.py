"""C20 — memos survive segmentation into grams and any delivery order"""
import itertools
from vf.engine.base import Failure
from vf.stubs import fakesig
from hio.core.memo import memoing

ID = 'C20'
EXPLANATION = ("Real Memoer.rend (segmentation, headers, signing) on the sender and the real receive path (_serviceOneReceived, pick, wiff, "
               "verify, fuse, _serviceOnceRxGrams, serviceAllRx over the tree's own echo transport) on the receiver, with an ideal "
               "signature scheme and deterministic ids. Driver: the four zero-gram codes (plain/auth x sure) x base64/binary headers. "
               "Solver-chosen and enumerated: memo = prefix of 'abcdéf' (1..6 chars, a 2-byte UTF-8 char that straddles gram "
               "boundaries), gram size = overhead + 1..3 body bytes (1-4 grams), the delivery permutation of the grams, one duplicate "
               "at the end, one withheld gram, interleaving with the grams of a second memo; each delivery is serviced three ways inside the leaf: all datagrams "
               "queued before one serviceAllRx, one serviceAllRx after every datagram, one serviceAllRxOnce after every datagram (so "
               "fuse attempts also run on incomplete memos). Oracle: each complete memo appears in the "
               "inbox exactly once with the same text, source and signer id; a memo with a withheld gram never appears.")
FUNCTIONS = [('hio.core.memo.memoing', 'Memoer.rend'), ('hio.core.memo.memoing', 'Memoer.pick'), ('hio.core.memo.memoing', 'Memoer.wiff'),
             ('hio.core.memo.memoing', 'Memoer._serviceOneReceived'), ('hio.core.memo.memoing', 'Memoer.fuse'), ('hio.core.memo.memoing', 'Memoer._serviceOnceRxGrams'),
             ('hio.core.memo.memoing', 'Memoer.serviceAllRx'), ('hio.core.memo.memoing', 'Memoer.sign'), ('hio.core.memo.memoing', 'Memoer.verify'),
             ('hio.help.helping', 'intToB64b'), ('hio.help.helping', 'b64ToInt')]
BOUNDS = {'quick': dict(mlen=5, body=3, grams=3, budget_s=150, audit_max=6), 'thorough': dict(mlen=6, body=3, grams=5, budget_s=3000, audit_max=20)}
OUTSIDE = ['memos longer than the bound / more than `grams` grams', 'real libsodium (ideal signature stub)', 'more than one duplicate or withheld gram per run',
           'a complete duplicate set arriving after the memo was already delivered']
STUBS = ['FakeSodium ideal signatures, FakeUUID deterministic ids, the tree\'s own echo transport (echoic=True)']
ASSUMPTIONS = ['ideal signatures: verify succeeds iff the signature was produced for exactly that message by that key']
REQUIRED_TAGS = ['reordered', 'duplicate', 'withheld', 'multi-byte-char-split', 'single-gram', 'interleaved-memos', 'signed', 'binary-headers']
RULE = 'tags: reordering, duplication, withheld gram, UTF-8 char split across grams, single-gram memos, interleaving, signed codes, binary headers'
MEMO = 'abcdéf'
SOLVER_ROLE = 'enumeration of the finite delivery space through the solver-maintained path tree; the chosen scenario then runs with the tracer off'


def partitions(tier):
    b = BOUNDS[tier]
    ps = []
    for code in zero_codes():
        for curt in (False, True):
            ps.append(dict(name='%s-%s' % (code, 'b2' if curt else 'b64'), code=code, curt=curt, wide=False, mlen=b['mlen'], body=b['body'], grams=b['grams']))
            if curt and not memoing.Memoer.Sizes[code].vz:
                # gram sizes just above the UNSCALED non-zeroth overhead: the smallest sizes at which binary-header
                # segmentation of unsigned memos works at all on this tree (see known finding), memo long enough to segment
                ps.append(dict(name='%s-b2-wide' % code, code=code, curt=curt, wide=True, mlen=b['mlen'], body=b['body'], grams=b['grams']))
    return ps


def zero_codes():
    """the zero-gram codes are the keys of Memoer.Pairs"""
    return sorted(memoing.Memoer.Pairs.keys())


def setup():
    memoing.pysodium, memoing.logger, memoing.uuid = fakesig.FakeSodium, fakesig.NullLogger(), fakesig.FakeUUID
    fakesig.FakeUUID.n = 0
    seed = b'\x01' * 32
    vk, sk = fakesig.FakeSodium.crypto_sign_seed_keypair(seed)
    vid = memoing.Memoer._encodeVID(vk)
    keep = {vid: memoing.Keyage(qvk=memoing.Memoer._encodeQVK(vk), qss=memoing.Memoer._encodeQSS(seed))}
    return vid, keep


def unscaled_noz_effect(code, curt, size, ml):
    """which consequence of the known unscaled-`noz` defect (binary headers) applies to this size / memo length, if any"""
    if not curt:
        return ''
    zoz = 3 * sum(memoing.Memoer.Sizes[code]) // 4
    noz = sum(memoing.Memoer.Sizes[memoing.Memoer.Pairs[code]])      # what the tree uses: not scaled
    zbz, nbz = size - zoz, size - noz
    if nbz <= 0:
        return ':size-below-unscaled-nonzeroth-overhead'
    if ml + nbz - zbz <= 0:
        return ':short-memo-gram-count-nonpositive'
    return ''


def stage_send(part, mlen, bodysz, second):
    """real sender: returns dict(grams, grams2, ...) or a Failure"""
    vid, keep = setup()
    code, curt = part['code'], part['curt']
    zsizes = memoing.Memoer.Sizes[code]
    signed = bool(zsizes.vz)       # a signer id travels in the zeroth header
    tx = memoing.Memoer(code=code, curt=curt, echoic=True, keep=keep, vid=vid if signed else None)
    tx.opened = True
    oz = sum(zsizes)
    oz = 3 * oz // 4 if curt else oz
    tx.size = oz + bodysz
    memo = MEMO[:mlen]
    if part.get('wide'):
        tx.size = sum(memoing.Memoer.Sizes[memoing.Memoer.Pairs[code]]) + bodysz
        memo = (MEMO * 20)[:max(1, tx.size - oz - 3 + mlen)]
    enc = 'b2' if curt else 'b64'
    memo2 = 'XY' + (memo[2:] if part.get('wide') else '')
    try:
        grams = [bytes(g) for g in tx.rend(memo, vid=vid if signed else None)]
        g2 = [bytes(g) for g in tx.rend(memo2, vid=vid if signed else None)] if second else []
    except Exception as ex:      # noqa
        why = unscaled_noz_effect(code, curt, tx.size, len(memo.encode())) or (unscaled_noz_effect(code, curt, tx.size, len(memo2.encode())) if second else '')
        return Failure('rend-raises:%s:%s%s' % (type(ex).__name__, enc, why),
                       'rend(%r) with gram size %d (the size setter accepted it: %d) raised %r' % (memo, tx.size, tx.size, ex))
    if any(len(g) > tx.size for g in grams + g2):
        return Failure('gram-exceeds-size:%s' % enc, 'rend(%r) with gram size %d produced grams of lengths %r' % (memo, tx.size, [len(g) for g in grams]))
    return dict(vid=vid, keep=keep, signed=signed, grams=grams, g2=g2, memo=memo, memo2=memo2, size=tx.size)


def stage_deliver(part, st, order, dup, drop):
    grams, g2, signed, memo, vid = st['grams'], st['g2'], st['signed'], st['memo'], st['vid']
    n = len(grams)
    st['_order'], st['_dup'] = order, dup
    seq = [grams[i] for i in order if i != drop]
    st['_dup_at'] = -1
    if dup >= 0 and dup != drop:
        seq.append(grams[dup])
    if g2:
        inter, k = [], 0
        for item in seq:
            inter.append(item)
            if k < len(g2):
                inter.append(g2[k])
                k += 1
        seq = inter + g2[k:]
    if dup >= 0 and dup != drop:
        st['_dup_at'] = max(i for i, g in enumerate(seq) if g is grams[dup])     # position of the late duplicate in the delivery
    # servicing granularity is folded into the leaf: all datagrams queued before one service pass (batch), and one service
    # pass after every single datagram (incremental: fuse attempts run on incomplete memos), the greedy and the once flavour
    for mode in ('batch', 'incremental', 'incremental-once'):
        f = deliver_mode(part, st, seq, mode, drop)
        if f is not None:
            return f
    return None


def deliver_mode(part, st, seq, mode, drop):
    grams, g2, signed, memo, vid = st['grams'], st['g2'], st['signed'], st['memo'], st['vid']
    n = len(grams)
    order, dup = st.get('_order'), st.get('_dup')
    rx = memoing.Memoer(echoic=True, authic=signed, keep=st['keep'])
    rx.opened = True
    done_before_dup = 0
    try:
        if mode == 'batch':
            for g in seq:
                rx.echos.append((g, 'srcaddr'))
            rx.serviceAllRx()
        else:
            for j, g in enumerate(seq):
                if j == st['_dup_at']:
                    done_before_dup = sum(1 for t in list(rx.inbox) + list(rx.rxms) if t[0] == memo)
                rx.echos.append((g, 'srcaddr'))
                if mode == 'incremental':
                    rx.serviceAllRx()
                else:
                    rx.serviceAllRxOnce()
            rx.serviceAllRx()
    except Exception as ex:      # noqa
        return Failure('rx-raises:%s' % type(ex).__name__, 'service (%s) raised %r on delivery %r' % (mode, ex, seq))
    got = sorted(((m, s, v) for (m, s, v) in rx.inbox), key=lambda t: t[0])
    exp = []
    if drop < 0:
        exp.append((memo, 'srcaddr', vid if signed else None))
    if g2:
        exp.append((st['memo2'], 'srcaddr', vid if signed else None))
    exp.sort(key=lambda t: t[0])
    if got != exp:
        sg = 'signed' if signed else 'unsigned'
        eff = unscaled_noz_effect(part['code'], part['curt'], st['size'], len(memo.encode()))
        eff2 = unscaled_noz_effect(part['code'], part['curt'], st['size'], len(st['memo2'].encode())) if g2 else ''
        if (eff and drop < 0) or (eff2 and sorted(t for t in got if t[0] != '') == sorted(t for t in exp if t[0] != st['memo2'])):
            eff = eff or eff2
            return Failure('b2%s:%s' % (eff, sg), 'memo %r (size %d) delivered as %r' % (memo, st['size'], got))
        if [g[0] for g in got] == [e[0] for e in exp]:
            kind = 'wrong-source-or-signer'
        elif len(got) < len(exp):
            kind = 'memo-not-delivered'
            if signed and not any(m == memo for (m, s, v) in got) and drop < 0 and order[0] != 0:
                kind += ':nonzeroth-gram-arrives-before-zeroth'
        elif len(got) > len(exp):
            kind = 'delivered-although-gram-withheld' if drop >= 0 else 'delivered-more-than-once'
            if drop < 0 and done_before_dup == 1 and [t for t in got if t[0] != memo] == [t for t in exp if t[0] != memo] \
                    and sum(1 for t in got if t[0] == memo) == 2:
                # the memo had been fused and delivered (its reassembly state deleted) before the duplicate datagram arrived
                kind += ':duplicate-gram-arrives-after-the-memo-was-delivered'
        else:
            kind = 'wrong-text'
        return Failure('%s:%s' % (kind, sg),
                       'memo %r in %d grams (size %d) delivered in order %r (dup %d, withheld %d, interleaved with %d grams of a 2nd memo; servicing %s): inbox %r expected %r'
                       % (memo, n, st['size'], order, dup, drop, len(g2), mode, got, exp))
    return None


def harness(sym, part):
    mlen = sym.cint('mlen', 1, part['mlen'])
    bodysz = sym.cint('body', 1, part['body'])
    second = sym.cbool('second_memo')
    st = sym.untraced(lambda: stage_send(part, mlen, bodysz, second))
    if isinstance(st, Failure):
        return st
    n = len(st['grams'])
    if n > part['grams']:
        sym.assume(False)
    perms = list(itertools.permutations(range(n)))
    order = perms[sym.cint('perm', 0, len(perms) - 1)]
    dup = sym.cint('dup', -1, n - 1)
    drop = sym.cint('drop', -1, n - 1)
    if order != tuple(range(n)):
        sym.cover('reordered')
    if dup >= 0 and dup != drop:
        sym.cover('duplicate')
    if drop >= 0:
        sym.cover('withheld')
    if n == 1:
        sym.cover('single-gram')
    if st['signed']:
        sym.cover('signed')
    if part['curt']:
        sym.cover('binary-headers')
    if second:
        sym.cover('interleaved-memos')
    if 'é' in st['memo'] and bodysz == 1:
        sym.cover('multi-byte-char-split')
    return sym.untraced(lambda: stage_deliver(part, st, order, dup, drop))


MUTANTS = [
    ('fuse-per-gram-decode', 'hio/core/memo/memoing.py',
     "        memo = bytearray()\n        for i in range(cnt):  # iterate in numeric order, items are insertion ordered\n            memo.extend(grams[i])  # extend memo with gram body part at gram i\n\n        return memo.decode()  # convert bytearray to str",
     "        return ''.join(grams[i].decode() for i in range(cnt))"),
    ('first-only-storage-dropped', 'hio/core/memo/memoing.py',
     "        if gn not in self.rxgs[mid]:  # make idempotent first only no replay\n            self.rxgs[mid][gn] = gram",
     "        if True:\n            self.rxgs[mid][gn] = gram if gn not in self.rxgs[mid] else self.rxgs[mid][gn] + gram"),
    ('fuse-counts-grams-not-indices', 'hio/core/memo/memoing.py',
     "        for i in range(cnt):  # iterate in numeric order, items are insertion ordered\n            memo.extend(grams[i])",
     "        for i in list(grams)[:cnt]:  # items are insertion ordered\n            memo.extend(grams[i])"),
]
