"""C22 — memo receivers survive arbitrary datagrams and accept only authentic memos"""
from vf.engine.base import Failure
from vf.engine.symx_guard import guard
from vf.stubs import fakesig
from vf.props import c20
from hio.core.memo import memoing

ID = 'C22'
EXPLANATION = ("Real receive path (Memoer._serviceOneReceived, wiff, pick, verify, fuse, _serviceOnceRxGrams, serviceAllRx over the tree's own "
               "echo transport), ideal signature stub. Form 'raw': a fully SYMBOLIC datagram (every byte 0..255, length fixed per "
               "partition) is the only thing received - every branch of wiff/pick on its bytes is a z3 query. Form 'mutate': a valid "
               "gram of a 2-gram memo produced by the real rend (4 zero-gram codes x base64/binary headers) gets ONE byte replaced by a "
               "SYMBOLIC byte (any value but the original) at a solver-chosen position, and is delivered before or after its honest "
               "partner gram; positions are partitioned by header field (code, gram number/count, memo id, signer id, body, signature). "
               "Form 'prefix': the whole code + gram-number/count part (8 bytes base64, 6 bytes binary) of an unsigned gram symbolic at once. Form 'truncate': the gram cut at every length. Form 'forge': an honest signer (self-certifying id / id whose current key, after rotation, is in the receiver's keep / digest id) and a second party with valid keys of its own - or holding the honest signer's RETIRED key - both write two-gram memos under the SAME memo id; all 24 arrival orders x an intermediate service pass at every point. Receivers with and without 'signed grams required'. Oracle: servicing never "
               "raises; a receiver that requires signed grams delivers nothing except, possibly, exactly the honest memo with the honest "
               "signer id (which a mutation cannot produce unless the mutated byte is semantically void); in 'forge' every delivered memo is exactly what its reported signer signed with its current key; and state for undeliverable "
               "memos does not make later service passes raise.")
FUNCTIONS = [('hio.core.memo.memoing', 'Memoer.wiff'), ('hio.core.memo.memoing', 'Memoer.pick'), ('hio.core.memo.memoing', 'Memoer.verify'),
             ('hio.core.memo.memoing', 'Memoer._serviceOneReceived'), ('hio.core.memo.memoing', 'Memoer.fuse'), ('hio.core.memo.memoing', 'Memoer._serviceOnceRxGrams'),
             ('hio.core.memo.memoing', 'Memoer.serviceAllRx'), ('hio.core.memo.memoing', 'Memoer._decodeVID'), ('hio.core.memo.memoing', 'Memoer._decodeSGN'),
             ('hio.help.helping', 'b64ToInt'), ('hio.help.helping', 'codeB2ToB64')]
BOUNDS = {'quick': dict(rawlen=4, budget_s=150, audit_max=6, allvalues=False), 'thorough': dict(rawlen=6, budget_s=1500, audit_max=20, allvalues=True)}
OUTSIDE = ['raw datagrams longer than the bound (longer ones are reached as mutations / truncations of valid grams)', 'two or more mutated bytes in one gram',
           'real libsodium (ideal signature stub: forging a signature is impossible by assumption)', 'replay of a complete honest memo (delivered again: not tampering)']
STUBS = ['FakeSodium ideal signatures (comparison based on the receive side), FakeUUID, echo transport']
ASSUMPTIONS = ['ideal signatures']
REQUIRED_TAGS = ['unknown-code', 'too-short', 'not-b-prefix', 'mutated-code', 'mutated-gram-number', 'mutated-body', 'mutated-signature', 'mutated-signer-id', 'mutated-memo-id',
                 'truncated', 'signed-required', 'binary-headers', 'base64-headers', 'honest-delivered', 'forge-same-memo-id', 'forge-honest-delivered', 'forge-other-party-delivered', 'unsigned-memo-to-signed-only-receiver', 'symbolic-code-and-gram-number']
RULE = 'tags: unknown codes, short datagrams, wrong first sextet, one mutated byte in each header field / body / signature, truncation, receivers that require signatures, both encodings'
MEMO = 'héllo!'
SOLVER_ROLE = 'symbolic execution of the receive path on symbolic datagram bytes; finite position/partner-order choices enumerated through the same path tree'


def fields(code, curt, glen):
    """byte ranges of the header fields of a gram with this code"""
    bz, nz, mz, vz, az = memoing.Memoer.Sizes[code]
    if curt:
        bz, nz, mz, vz, az = (3 * x // 4 for x in (bz, nz, mz, vz, az))
    f = {'code': (0, bz), 'gram-number': (bz, bz + nz), 'memo-id': (bz + nz, bz + nz + mz), 'signer-id': (bz + nz + mz, bz + nz + mz + vz),
         'body': (bz + nz + mz + vz, glen - az), 'signature': (glen - az, glen)}
    return {k: v for k, v in f.items() if v[1] > v[0]}


def partitions(tier):
    b = BOUNDS[tier]
    ps = []
    for n in range(1, b['rawlen'] + 1):
        for authic in (False, True):
            for lead in ('b64', 'b2', 'other'):
                ps.append(dict(name='raw-len%d-%s-%s' % (n, lead, 'authic' if authic else 'open'), form='raw', n=n, authic=authic, lead=lead))
    for code in c20.zero_codes():
        signed = bool(memoing.Memoer.Sizes[code].vz)
        for curt in (False, True):
            for gi in (0, 1):
                gcode = code if gi == 0 else memoing.Memoer.Pairs[code]
                for fld in ('code', 'gram-number', 'memo-id', 'signer-id', 'body', 'signature'):
                    if fld in ('signer-id',) and (not signed or gi == 1):
                        continue
                    if fld == 'signature' and not signed:
                        continue
                    ps.append(dict(name='mutate-%s-%s-g%d-%s' % (code, 'b2' if curt else 'b64', gi, fld), form='mutate', code=code, curt=curt, gi=gi, field=fld,
                                   allvalues=b['allvalues']))
                ps.append(dict(name='truncate-%s-%s-g%d' % (code, 'b2' if curt else 'b64', gi), form='truncate', code=code, curt=curt, gi=gi))
                if not signed and (curt or tier == 'thorough'):      # (base64 heads: thorough tier only, ~50 s CPU each); in a signed gram any change of the signed head is already decided by the signature (mutate form)
                    ps.append(dict(name='prefix-%s-%s-g%d' % (code, 'b2' if curt else 'b64', gi), form='prefix', code=code, curt=curt, gi=gi))
            if signed:
                for akind in ('B', 'D-rotated', 'E'):
                    for attacker in (('own-key', 'retired-key') if akind == 'D-rotated' else ('own-key',)):
                        ps.append(dict(name='forge-%s-%s-%s-%s' % (code, 'b2' if curt else 'b64', akind, attacker), form='forge', code=code, curt=curt, akind=akind,
                                       attacker=attacker))
    return ps


def make_grams(code, curt):
    vid, keep = c20.setup()
    zs = memoing.Memoer.Sizes[code]
    signed = bool(zs.vz)
    tx = memoing.Memoer(code=code, curt=curt, echoic=True, keep=keep, vid=vid if signed else None)
    tx.opened = True
    # a size at which the memo takes exactly two grams on this tree (the zeroth carries 3 body bytes)
    oz = sum(zs)
    oz = 3 * oz // 4 if curt else oz
    noz = sum(memoing.Memoer.Sizes[memoing.Memoer.Pairs[code]])
    tx.size = max(oz + 3, noz + 4)
    for k in range(2, 80):      # the shortest prefix that takes two grams with at least 3 bytes ('é' included) in the second
        memo = (MEMO * 12)[:k]
        try:
            grams = [bytes(g) for g in tx.rend(memo, vid=vid if signed else None)]
        except Exception:      # noqa  (C20's business, incl. its known finding for short memos under binary headers)
            continue
        if len(grams) == 2 and len(memo.encode()) - (tx.size - oz) >= 3:
            return vid, keep, signed, grams, memo
    raise RuntimeError('rend does not produce a two-gram memo at size %d' % tx.size)


def service(rx, passes=2):
    """real service passes; returns exception or None"""
    try:
        for _ in range(passes):
            rx.serviceAllRx()
    except Exception as ex:      # noqa
        guard(ex)
        return ex
    return None


def harness_raw(sym, part):
    vid, keep = sym.untraced(c20.setup)
    patch_tables(sym)
    n = part['n']
    data = sym.bytes('datagram', n, minlen=n)
    rx = memoing.Memoer(echoic=True, authic=part['authic'], keep=keep)
    rx.opened = True
    rx.echos.append((data, 'srcaddr'))
    # first sextet: 'b' in base64 text, 'b' in base2, anything else
    if part['lead'] == 'b64':
        sym.constrain(data[0] >= 0o30 << 2)
        sym.constrain(data[0] < 0o31 << 2)
    elif part['lead'] == 'b2':
        sym.constrain(data[0] >= 0o33 << 2)
        sym.constrain(data[0] < 0o34 << 2)
    else:
        sym.constrain_any([data[0] < 0o30 << 2, data[0] >= 0o34 << 2] + [data[0] == v for v in range(0o31 << 2, 0o33 << 2)])
        sym.cover('not-b-prefix')
    sym.cover('too-short')
    if part['authic']:
        sym.cover('signed-required')
    ex = service(rx)
    if n >= 2 and part['lead'] == 'b64':
        sym.cover_if('unknown-code', data[1] == 0x5a)
    if ex is not None:
        return Failure('raw:service-raises:%s' % exname(ex), lambda: 'serviceAllRx raised %r on datagram %r' % (ex, bytes(data)))
    if rx.inbox or rx.rxms:
        return Failure('raw:delivered-from-garbage', lambda: 'datagram %r delivered %r' % (bytes(data), list(rx.inbox)))
    return None


def check_outcome(sym, part, rx, ex, honest, signed, desc):
    vid, memo = honest
    if ex is not None:
        where = 'fuse' if isinstance(ex, (UnicodeDecodeError, KeyError)) and rx.rxgs and not rx.echos and 'fuse' in trace_of(ex) else 'pick'
        return Failure('%s:service-raises:%s:in-%s' % (part['form'], exname(ex), where), lambda: 'serviceAllRx raised %r: %s' % (ex, desc()))
    if rx.authic:
        for (m, s, v) in rx.inbox:
            if not (m == memo and v == vid):
                return Failure('%s:tampered-memo-delivered-by-receiver-that-requires-signatures' % part['form'], lambda: 'delivered %r: %s' % ((m, s, v), desc()))
    return None


def exname(ex):
    return type(ex).__name__.lstrip('_')      # CrossHair raises private subclasses of the builtin exception types


def trace_of(ex):
    import traceback
    return ''.join(f.name + ' ' for f in traceback.extract_tb(ex.__traceback__))


OPAQUE = ('memo-id', 'signer-id', 'signature')      # fields hio hands to C-level base64 / the signature primitive without looking inside
REPRESENTATIVES = [0x00, 0x20, 0x2d, 0x30, 0x3d, 0x41, 0x42, 0x44, 0x45, 0x5f, 0x7a, 0x7f, 0x80, 0xc3, 0xff]


def patch_tables(sym):
    from hio.help import helping
    sym.model_str_repr()
    sym.model_int_or()
    if not getattr(sym, 'concrete', False) and type(helping.B64ChrByIdx) is dict:
        from vf.stubs import symtable      # only under the symbolic engine: replay / audit processes run without CrossHair
        helping.B64ChrByIdx = symtable.SymTable(helping.B64ChrByIdx)      # see vf/stubs/symtable.py: same entries, non-forking lookup
        helping.B64IdxByChr = symtable.SymTable(helping.B64IdxByChr)


def harness_mutate(sym, part):
    patch_tables(sym)
    vid, keep, signed, grams, memo = sym.untraced(lambda: make_grams(part['code'], part['curt']))
    gi = part['gi']
    g = grams[gi]
    gcode = part['code'] if gi == 0 else memoing.Memoer.Pairs[part['code']]
    lo, hi = fields(gcode, part['curt'], len(g))[part['field']]
    pos = sym.cint('pos', lo, hi - 1)
    opaque = part['field'] in OPAQUE
    if opaque:
        # the byte goes through C-level base64 decoding / the signature primitive, where a symbolic value would be realised
        # value by value anyway: choose it (all 255 other values in the thorough tier, class representatives + bit flips in
        # the quick tier) and run the receive path concretely
        if part['allvalues']:
            nb = sym.cint('newbyte', 0, 255)
        else:
            nb = sym.choice('newbyte', sorted(set(REPRESENTATIVES + [g[pos] ^ 1, g[pos] ^ 0x80, g[pos] ^ 0x20])))
        if nb == g[pos]:
            sym.assume(False)
    else:
        nb = sym.int('newbyte', 0, 255)
        sym.constrain(nb != g[pos])
    sym.cover('mutated-' + part['field'])
    sym.cover('binary-headers' if part['curt'] else 'base64-headers')

    def run(partner_first, authic):
        m = bytearray(g)
        m[pos] = nb
        others = [x for j, x in enumerate(grams) if j != gi]
        rx = memoing.Memoer(echoic=True, authic=authic, keep=keep)
        rx.opened = True
        seq = (others + [m]) if partner_first else ([m] + others)
        for x in seq:
            rx.echos.append((x, 'srcaddr'))
        ex = service(rx)
        return check_outcome(sym, part, rx, ex, (vid, memo), signed,
                             lambda: 'gram %d (%s) of %r with byte %d (%s) changed from %#x to %#x, partner delivered %s, authic=%r' %
                             (gi, gcode, memo, pos, part['field'], g[pos], int(nb), 'first' if partner_first else 'after', authic))
    if opaque:      # the four (partner order, receiver mode) combinations in one concrete leaf
        if signed:
            sym.cover('signed-required')

        def run_all():
            for pf in (False, True):
                for au in ((False, True) if signed else (False,)):
                    f = run(pf, au)
                    if f is not None:
                        return f
            return None
        return sym.untraced(run_all)
    partner_first = sym.cbool('partner_first')
    authic = sym.cbool('authic') if signed else False
    if authic:
        sym.cover('signed-required')
    return run(partner_first, authic)


def harness_prefix(sym, part):
    """the whole code + gram-number part of a valid gram symbolic at once (several bytes wrong together)"""
    patch_tables(sym)
    vid, keep, signed, grams, memo = sym.untraced(lambda: make_grams(part['code'], part['curt']))
    g = grams[part['gi']]
    gcode = part['code'] if part['gi'] == 0 else memoing.Memoer.Pairs[part['code']]
    f = fields(gcode, part['curt'], len(g))
    k = f['gram-number'][1]
    head = sym.bytes('head', k, minlen=k)
    # the first sextet stays a 'b' of this encoding (other first bytes are the raw form's subject)
    if part['curt']:
        sym.constrain(head[0] >= 0o33 << 2)
        sym.constrain(head[0] < 0o34 << 2)
    else:
        sym.constrain(head[0] >= 0o30 << 2)
        sym.constrain(head[0] < 0o31 << 2)
    partner_first = sym.cbool('partner_first')
    authic = sym.cbool('authic') if signed else False
    m = head + g[k:]
    others = [x for j, x in enumerate(grams) if j != part['gi']]
    rx = memoing.Memoer(echoic=True, authic=authic, keep=keep)
    rx.opened = True
    for x in ((others + [m]) if partner_first else ([m] + others)):
        rx.echos.append((x, 'srcaddr'))
    sym.cover('symbolic-code-and-gram-number')
    ex = service(rx)
    return check_outcome(sym, part, rx, ex, (vid, memo), signed,
                         lambda: 'gram %d (%s) of %r with its first %d bytes replaced by %r, partner delivered %s, authic=%r' %
                         (part['gi'], gcode, memo, k, bytes(head), 'first' if partner_first else 'after', authic))


def harness_truncate(sym, part):
    vid, keep, signed, grams, memo = sym.untraced(lambda: make_grams(part['code'], part['curt']))
    gi = part['gi']
    g = grams[gi]
    cut = sym.cint('cut', 1, len(g) - 1)
    partner_first = sym.cbool('partner_first')
    authic = sym.cbool('authic') if signed else False
    sym.cover('truncated')
    if cut == 1:
        sym.cover('honest-delivered')
        if not signed:
            sym.cover('unsigned-memo-to-signed-only-receiver')

    def run():
        others = [x for j, x in enumerate(grams) if j != gi]
        rx = memoing.Memoer(echoic=True, authic=authic, keep=keep)
        rx.opened = True
        seq = (others + [g[:cut]]) if partner_first else ([g[:cut]] + others)
        for x in seq:
            rx.echos.append((x, 'srcaddr'))
        ex = service(rx)
        f = check_outcome(sym, part, rx, ex, (vid, memo), signed, lambda: 'gram %d of %r cut to %d of %d bytes, partner %s, authic=%r' %
                          (gi, memo, cut, len(g), 'first' if partner_first else 'after', authic))
        if f is None and cut == 1:
            # control: the untouched pair is delivered (the oracle above is not vacuous)
            rx2 = memoing.Memoer(echoic=True, authic=authic, keep=keep)
            rx2.opened = True
            for x in grams:
                rx2.echos.append((x, 'srcaddr'))
            service(rx2)
            if [t[0] for t in rx2.inbox] != [memo]:
                return Failure('control:honest-pair-not-delivered', 'honest grams in order gave %r' % list(rx2.inbox))
            if not signed:      # the same unsigned memo must NOT pass a receiver that requires signed grams
                rx3 = memoing.Memoer(echoic=True, authic=True, keep=keep)
                rx3.opened = True
                for x in grams:
                    rx3.echos.append((x, 'srcaddr'))
                ex3 = service(rx3)
                if ex3 is not None or rx3.inbox:
                    return Failure('unsigned-memo-delivered-by-receiver-that-requires-signatures', 'unsigned grams %r gave %r / %r' % (grams, ex3, list(rx3.inbox)))
        return f
    return sym.untraced(run)


def forge_setup(part):
    """honest signer A and a second party with valid keys of its own, both writing grams for the SAME memo id"""
    import hashlib
    c20.setup()
    code, curt, akind = part['code'], part['curt'], part['akind']
    M = memoing.Memoer
    S = fakesig.FakeSodium
    seed_new, seed_old, seed_m = b'\x0a' * 32, b'\x0b' * 32, b'\x0c' * 32
    vk_new, _ = S.crypto_sign_seed_keypair(seed_new)
    vk_old, _ = S.crypto_sign_seed_keypair(seed_old)
    vk_m, _ = S.crypto_sign_seed_keypair(seed_m)
    if akind == 'B':          # self-certifying: the id IS the key
        vid_a = M._encodeVID(vk_new, code='B')
        rx_keep = {}
    elif akind == 'D-rotated':  # id derived from the inception key; the receiver's keep says the current key is the new one
        vid_a = M._encodeVID(vk_old, code='D')
        rx_keep = {vid_a: memoing.Keyage(qvk=M._encodeQVK(vk_new), qss=None)}
    else:                     # digest id: the key is known from the keep only
        vid_a = M._encodeVID(hashlib.sha256(b'aid').digest(), code='E')
        rx_keep = {vid_a: memoing.Keyage(qvk=M._encodeQVK(vk_new), qss=None)}
    keep_a = {vid_a: memoing.Keyage(qvk=M._encodeQVK(vk_new), qss=M._encodeQSS(seed_new))}
    if part['attacker'] == 'own-key':      # a valid party of its own (self-certifying id), reusing A's memo id
        vid_x = M._encodeVID(vk_m, code='B')
        keep_x = {vid_x: memoing.Keyage(qvk=M._encodeQVK(vk_m), qss=M._encodeQSS(seed_m))}
    else:                                  # signs with A's RETIRED key under A's id
        vid_x = vid_a
        keep_x = {vid_a: memoing.Keyage(qvk=M._encodeQVK(vk_old), qss=M._encodeQSS(seed_old))}
    oz = sum(M.Sizes[code])
    oz = 3 * oz // 4 if curt else oz
    size = max(oz + 3, sum(M.Sizes[M.Pairs[code]]) + 4)
    out = {}
    for who, vid, keep, text in (('a', vid_a, keep_a, 'héllo'), ('x', vid_x, keep_x, 'EVIL!'), ('y', vid_x, keep_x, 'BAD')):
        tx = M(code=code, curt=curt, echoic=True, keep=keep, vid=vid)
        tx.opened = True
        tx.size = size
        fakesig.FakeUUID.n = 7      # both write under the same memo id
        grams = [bytes(g) for g in tx.rend(text, vid=vid)]
        if len(grams) != (1 if who == 'y' else 2):
            raise RuntimeError('unexpected number of grams: %d' % len(grams))
        out[who] = (vid, text, grams)
    return rx_keep, out


def harness_forge(sym, part):
    import itertools
    rx_keep, out = sym.untraced(lambda: forge_setup(part))
    (vid_a, text_a, ga), (vid_x, text_x, gx) = out['a'], out['x']
    if sym.cbool('other_party_single_gram'):
        vid_x, text_x, gx = out['y']
        items = [('a0', ga[0]), ('a1', ga[1]), ('x0', gx[0])]
    else:
        items = [('a0', ga[0]), ('a1', ga[1]), ('x0', gx[0]), ('x1', gx[1])]
    perms = list(itertools.permutations(range(len(items))))
    order = perms[sym.cint('order', 0, len(perms) - 1)]
    pause = sym.cint('service_after', 0, len(items))       # an extra service pass after this many datagrams (last value = only at the end)
    sym.cover('forge-same-memo-id')
    sym.cover('signed-required')

    def run():
        rx = memoing.Memoer(echoic=True, authic=True, keep=dict(rx_keep))
        rx.opened = True
        names = []
        for k, i in enumerate(order):
            if k == pause:
                ex = service(rx, passes=1)
                if ex is not None:
                    return Failure('forge:service-raises:%s' % exname(ex), 'raised %r after %r' % (ex, names))
            names.append(items[i][0])
            rx.echos.append((items[i][1], 'srcaddr'))
        ex = service(rx)
        if ex is not None:
            return Failure('forge:service-raises:%s' % exname(ex), 'raised %r after %r' % (ex, names))
        retired = part['attacker'] == 'retired-key'
        for (m, s, v) in rx.inbox:
            ok = (v == vid_a and m == text_a) or (not retired and v == vid_x and m == text_x)
            if not ok:
                kind = 'content-signed-with-retired-key-delivered' if retired else 'content-not-signed-by-the-reported-signer-delivered'
                return Failure('forge:%s' % kind, 'receiver requiring signatures delivered %r; datagram order %r, service pass after %d; honest signer %s wrote %r, other party %s wrote %r'
                               % ((m, s, v), names, pause, vid_a, text_a, vid_x, text_x))
        return [t for t, c in (('forge-honest-delivered', any(m == text_a for m, _, _ in rx.inbox)), ('forge-other-party-delivered', any(m == text_x for m, _, _ in rx.inbox))) if c]
    r = sym.untraced(run)
    if isinstance(r, Failure):
        return r
    for t in r:
        sym.cover(t)
    return None


def harness(sym, part):
    return {'raw': harness_raw, 'mutate': harness_mutate, 'truncate': harness_truncate, 'forge': harness_forge, 'prefix': harness_prefix}[part['form']](sym, part)


MUTANTS = [
    ('catch-only-memoer-error', 'hio/core/memo/memoing.py',
     "        except (hioing.MemoerError, ValueError, LookupError) as ex: # invalid gram so drop",
     "        except hioing.MemoerError as ex: # invalid gram so drop"),
    ('fuse-counts-only', 'hio/core/memo/memoing.py',
     "        if len(grams) < cnt or any(i not in grams for i in range(cnt)):",
     "        if len(grams) < cnt:"),
    ('authic-check-dropped-b2', 'hio/core/memo/memoing.py',
     "            code = helping.codeB2ToB64(gram, 4)  # code from first 4 sextets\n            if self.authic and code not in self.Audex:  # must be signed",
     "            code = helping.codeB2ToB64(gram, 4)  # code from first 4 sextets\n            if False:"),
    ('verify-skipped-for-nonzeroth', 'hio/core/memo/memoing.py',
     "        if sig:  # signature not empty when Auth code sig is never empty",
     "        if sig and gc is not None:  # signature not empty when Auth code sig is never empty"),
    ('stale-vids', 'hio/core/memo/memoing.py',
     "                del self.sources[mid]\n                del self.vids[mid]\n\n\n    def serviceRxGramsOnce",
     "                del self.sources[mid]\n\n\n    def serviceRxGramsOnce"),
]
