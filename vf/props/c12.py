"""C12 — idle HTTP connections time out after the configured tymeout"""
from vf.engine.base import Failure
from vf.stubs import fakenet
from hio.base import tyming
from hio.core import http
from hio.core.http import serving as hserving
from hio.core.tcp import serving as tserving

ID = 'C12'
EXPLANATION = ("Real http.Server (WSGI) over the real tcp Server/ServerTls on FakeNet with a real Tymist: the configured tymeout T and the "
               "gaps between service instants are SYMBOLIC reals, whether the client sends bytes at an instant is solver-chosen; the "
               "request never completes (an HTTP/1.0 head delivered in pieces), so the connection is not persistent. Every "
               "Tymer.expired comparison is a z3 query. Oracle per service instant t: if the time since the last traffic on the "
               "connection (or since it was accepted) is >= T the server closes it in that service() (descriptor closed, peer sees EOF); "
               "while every gap between traffic is < T it is never closed. A second connection with its own activity pattern checks "
               "that each connection is judged by its own timer. Two configurations: 'asbuilt' (the server as constructed) and 'wired' "
               "(the accepted connection is given the server's tymeout directly, so the sweep and the refresh-on-traffic logic are checked "
               "independently of how tcp.Server hands the value to its Remoter).")
_X = ("")
FUNCTIONS = [('hio.core.http.serving', 'Server.serviceConnects'), ('hio.core.http.serving', 'Server.closeConnection'), ('hio.core.http.serving', 'Server.service'),
             ('hio.core.tcp.serving', 'Server.serviceAxes'), ('hio.core.tcp.serving', 'ServerTls.serviceAxes'), ('hio.core.tcp.serving', 'Remoter.__init__'),
             ('hio.core.tcp.serving', 'Remoter.refresh'), ('hio.core.tcp.serving', 'Remoter.receive'), ('hio.core.tcp.serving', 'RemoterTls.receive'),
             ('hio.core.tcp.serving', 'RemoterTls.send'), ('hio.base.tyming', 'Tymer.expired'), ('hio.core.http.serving', 'Requestant.checkPersisted')]
BOUNDS = {'quick': dict(instants=3, budget_s=120, audit_max=8), 'thorough': dict(instants=5, budget_s=900, audit_max=20)}
OUTSIDE = ['IEEE-754 rounding', 'persistent connections (exempt by the statement)', 'BareServer', 'more than `instants` service instants', 'real sockets']
STUBS = ['FakeNet sockets / FakeCtx; hio.core.http.serving.sys.stderr and loggers silenced']
ASSUMPTIONS = ['reals for floats; T in [1/4, 4], gaps in [1/64, 8]', 'traffic = bytes the server reads from the client in a service() call']
REQUIRED_TAGS = ['idle-exactly-T', 'idle-longer', 'traffic-in-every-window', 'traffic-then-idle', 'burst-then-idle', 'two-connections-differ', 'response-stalled']
RULE = 'tags: idle time exactly / longer than T, traffic in every window, traffic followed by idleness, several reads in one window, two connections with different activity'
PIECES = [b'GE', b'T /', b' HT', b'TP/', b'1.0', b'\r\nX', b'-a:', b' 1']


def partitions(tier):
    b = BOUNDS[tier]
    ps = []
    for cfg in ('asbuilt', 'wired'):
        for cls in ('plain', 'tls'):
            for first in ('idle', 'traffic'):
                ps.append(dict(name='%s-%s-first-%s' % (cfg, cls, first), cfg=cfg, cls=cls, first=first, instants=b['instants']))
    # a complete non-persistent request whose response cannot be sent (kernel would-block on every send), client silent afterwards
    ps.append(dict(name='wired-plain-stalled-response', cfg='wired', cls='plain', first='stalled', instants=b['instants']))
    return ps


def wsgi_app(environ, start_response):
    start_response('200 OK', [('Content-Length', '2')])
    return [b'ok']


class Quiet:
    def write(self, *a):
        pass


def harness(sym, part):
    net = fakenet.FakeNet()
    tls = part['cls'] == 'tls'
    saved_sys = hserving.sys
    saved_log = hserving.logger

    class SysStub:
        stderr = Quiet()
    hserving.sys = SysStub
    hserving.logger = fakenet.NullLogger()
    try:
        with fakenet.Patch(net, tserving):
            T = sym.real('T', 0.25, 4)
            tymist = tyming.Tymist(tyme=0.0)
            servant = (tserving.ServerTls(ha=('127.0.0.1', 8080), tymeout=T, context=fakenet.FakeCtx(script=['ok'])) if tls
                       else tserving.Server(ha=('127.0.0.1', 8080), tymeout=T))
            srv = http.Server(servant=servant, app=wsgi_app, tymeout=T)
            srv.wind(tymist.tymen())
            assert srv.reopen()
            a = net.incoming(servant.ss, ('10.0.0.1', 4001))
            b = net.incoming(servant.ss, ('10.0.0.2', 4002))
            srv.service()
            if tls:
                srv.service()
            conns = {'A': ('10.0.0.1', 4001), 'B': ('10.0.0.2', 4002)}
            socks = {}
            for n, ca in conns.items():
                if ca not in servant.ixes:
                    return Failure('%s:%s:connection-not-established' % (part['cfg'], part['cls']), 'connection %s missing after accept' % n)
                socks[n] = servant.ixes[ca].cs
                if part['cfg'] == 'wired':
                    # give the accepted connection the server's tymeout directly: checks the rest of the mechanism
                    # (timeout sweep, refresh on traffic) independently of how tcp.Server hands the value over
                    servant.ixes[ca].tymeout = T
                    servant.ixes[ca].tymer.start(duration=T)
            # reference deadlines of the two recorded defects (see known_findings.txt)
            lossless = {'A': T, 'B': T}       # deadline if every read pushes the stop by one tymeout (Tymer.restart)
            norefresh = {'A': T, 'B': T}      # deadline if traffic never refreshes
            last = {'A': 0.0, 'B': 0.0}
            piece = {'A': 0, 'B': 0}
            closed = {'A': False, 'B': False}
            everyT = {'A': True, 'B': True}
            t = 0.0
            for k in range(part['instants']):
                g = sym.real('gap%d' % k, 1 / 64, 8)
                t = t + g
                tymist.tyme = t
                traffic = {}
                for n in ('A', 'B'):
                    if closed[n]:
                        continue
                    if part['first'] == 'stalled':
                        tr = False
                        if n == 'A' and k == 0:
                            import errno as _e
                            socks[n].inq.append(b'GET / HTTP/1.0\r\n\r\n')
                            socks[n].on_send = lambda s_, d: (_ for _ in ()).throw(BlockingIOError(_e.EAGAIN, 'again'))
                            traffic[n] = True
                            sym.cover('response-stalled')
                            continue
                    elif n == 'A':
                        tr = (part['first'] == 'traffic') if k == 0 else sym.cbool('traffic_A%d' % k)
                    else:
                        tr = sym.cbool('traffic_B%d' % k) if k < 2 else False
                    traffic[n] = tr
                    if tr:
                        burst = 2 if (n == 'A' and k == 0) else 1
                        for _ in range(burst):
                            socks[n].inq.append(PIECES[piece[n] % len(PIECES)])
                            piece[n] += 1
                        if burst > 1:
                            sym.cover('burst-then-idle')
                srv.service()
                for n in ('A', 'B'):
                    if closed[n]:
                        continue
                    idle = t - last[n]
                    must_close = idle >= T
                    is_closed = socks[n].closed
                    sym.cover_if('idle-exactly-T', idle == T)
                    sym.cover_if('idle-longer', idle > T)
                    reads = (2 if (n == 'A' and k == 0 and part['first'] != 'stalled') else 1) if traffic.get(n) else 0
                    if must_close and not is_closed:
                        sig = '%s:%s:idle-connection-not-closed' % (part['cfg'], part['cls'])
                        ix = servant.ixes.get(conns[n])
                        if part['cfg'] == 'asbuilt' and ix is not None and ix.tymeout == 0.0:
                            sig = 'asbuilt:remoter-created-with-tymeout-0-never-times-out'
                        elif part['cfg'] == 'wired' and not tls and t < lossless[n]:
                            sig = 'wired:plain:refresh-restarts-losslessly-so-idle-limit-stretches'
                        return Failure(sig,
                                       lambda n=n, idle=idle, k=k: 'connection %s idle for %r >= tymeout %r at service instant %d (tyme %r) but still open' % (n, idle, T, k, t))
                    if not must_close and is_closed:
                        sig = '%s:%s:active-connection-closed' % (part['cfg'], part['cls'])
                        if part['cfg'] == 'wired' and tls and t >= norefresh[n]:
                            sig = 'wired:tls:RemoterTls-never-refreshes-its-tymer'
                        return Failure(sig,
                                       lambda n=n, idle=idle, k=k: 'connection %s closed at instant %d although only %r < tymeout %r passed since its last traffic' % (n, k, idle, T))
                    for _ in range(reads):
                        lossless[n] = lossless[n] + T
                    if is_closed:
                        closed[n] = True
                        if conns[n] in servant.ixes:
                            return Failure('%s:%s:closed-connection-still-listed' % (part['cfg'], part['cls']), 'closed connection still in .ixes')
                    elif traffic.get(n):
                        if last[n] > 0:
                            sym.cover('traffic-in-every-window')
                        last[n] = t
                    elif last[n] > 0:
                        sym.cover('traffic-then-idle')
                if closed['A'] != closed['B']:
                    sym.cover('two-connections-differ')
            srv.close()
    finally:
        hserving.sys = saved_sys
        hserving.logger = saved_log
    return None


MUTANTS = [
    ('timeout-check-strict', 'hio/core/http/serving.py', "            if ix.tymeout > 0.0 and ix.tymer.expired:\n                self.closeConnection(ca)\n\n\n    def serviceReqs",
     "            if ix.tymeout > 0.0 and ix.tymer.remaining < 0:\n                self.closeConnection(ca)\n\n\n    def serviceReqs"),
]
