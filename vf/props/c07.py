"""C07 — real-time pacing never runs early and does not drift (Doist.do real branch, MonoTimer, Timer.restart)"""
from vf.engine.base import Failure
from vf.kits import sched
from vf.stubs.fakeclock import FakeClock
from hio.base import doing
from hio.help import timing

ID = 'C07'
EXPLANATION = ("Real Doist.do(real=True) with one probe doer, the `time` module seen by hio.base.doing and hio.help.timing replaced by a "
               "FakeClock: true time advances by a symbolic increment at every clock read and by x + symbolic overshoot at every "
               "sleep(x); the READING may step backwards by a symbolic amount at solver-chosen reads (also between construction and "
               "do()); the probe doer's work per cycle is a symbolic duration (incl. overruns longer than a tock); the tock may be "
               "changed after construction (driver). Oracle in exact real arithmetic over TRUE elapsed time E_k at the start of the k-th "
               "recur: never early E_k >= k*tock_at_run_start; lossless E_k <= max(k*tock + J, B_k) + D_k, where B_k is the true time the "
               "wait for cycle k began, D_k the delay the environment injected during that wait and J the total backward steps.")
FUNCTIONS = [('hio.base.doing', 'Doist.do'), ('hio.base.doing', 'Doist.__init__'), ('hio.help.timing', 'MonoTimer.latest'),
             ('hio.help.timing', 'MonoTimer.expired'), ('hio.help.timing', 'MonoTimer.remaining'), ('hio.help.timing', 'MonoTimer.__init__'),
             ('hio.help.timing', 'Timer.start'), ('hio.help.timing', 'Timer.restart')]
BOUNDS = {'quick': dict(cycles=3, budget_s=150, audit_max=4), 'thorough': dict(cycles=3, cycles2=2, budget_s=900, audit_max=6, per_path_timeout=80.0)}      # thorough adds every PAIR of backward-step positions (cycles=4 left a few solver-unknown leaves)
OUTSIDE = ['forward clock jumps (documented as undetectable)', 'IEEE-754 rounding', 'the asyncio loop (ado)', 'more than 1 (quick) / 2 (thorough) backward steps per run',
           'more than `cycles` cycles']
STUBS = ['FakeClock for time.time/time.sleep seen by hio.base.doing and hio.help.timing (contract in vf/stubs/fakeclock.py)']
ASSUMPTIONS = ['reals for floats', 'tock in [1/64, 2], read increments in [0, 1/4], sleep overshoot in [0, 1], backward steps in [0, 2], work per cycle in [0, 3]']
REQUIRED_TAGS = ['overrun-cycle', 'sleep-overshoot', 'backward-step-before-do', 'backward-step-during-wait', 'tock-changed-before-run', 'stalled-clock']
RULE = 'tags: work overrunning a tock, sleep overshoot, backward steps before do() and during a wait, tock changed after construction, stalled clock'


def partitions(tier):
    b = BOUNDS[tier]
    ps = []
    npos = 4 + 2 * b['cycles']
    for tk in ('same', 'changed'):
        ps.append(dict(name='tock-%s-steady' % tk, tock=tk, steps=0, pos=[], cycles=b['cycles']))
        for p1 in range(npos):          # the read at which the clock steps back is fixed by the driver
            ps.append(dict(name='tock-%s-step@%d' % (tk, p1), tock=tk, steps=1, pos=[p1], cycles=b['cycles']))
            if tier == 'thorough':
                for p2 in range(p1 + 1, npos):
                    ps.append(dict(name='tock-%s-steps@%d,%d' % (tk, p1, p2), tock=tk, steps=2, pos=[p1, p2], cycles=b.get('cycles2', b['cycles'] - 1)))
    return ps


class Overrun(Exception):
    pass


def harness(sym, part):
    N = part['cycles']
    pos = list(part['pos'])
    clock = FakeClock(sym, max_reads=6 + 4 * N, step_at=pos)
    saved = (doing.time, timing.time)
    doing.time = clock
    timing.time = clock
    try:
        tock0 = sym.real('tock0', 1 / 64, 2)
        w = sched.World()
        starts = []        # (true time, env delay since wait began, jsum) at each recur start
        waits = []         # true time when each wait began (end of recur work)

        class Probe(doing.Doer):
            def __init__(self, **kw):
                super().__init__(**kw)
                self.k = 0

            def recur(self, tyme):
                starts.append((clock.tau, clock.mark(), clock.jsum))
                if len(starts) > N + 2:
                    raise Overrun()
                wk = sym.real('work%d' % self.k, 0, 3)
                clock.work(wk)
                self.k += 1
                waits.append(clock.tau)
                clock.mark()
                return self.k >= N + 1
        doist = doing.Doist(tock=tock0, real=True, doers=[Probe()])
        reads_at_construction = clock.reads
        if part['tock'] == 'changed':
            tock1 = sym.real('tock1', 1 / 64, 2)
            doist.tock = tock1
        tock = doist.tock
        if any(p < reads_at_construction + 1 for p in pos):
            sym.cover('backward-step-before-do')
        tau_run = clock.tau
        try:
            doist.do()
        except Overrun:
            return Failure('pacing:runs-too-many-cycles', 'more recur calls than the doer needs')
        if len(starts) != N + 1:
            return Failure('pacing:cycle-count', lambda: 'probe ran %d times, expected %d' % (len(starts), N + 1))
        if part['tock'] == 'changed':
            sym.cover('tock-changed-before-run')
        base = None
        for k in range(1, N + 1):
            tau_k, env_k, jsum_k = starts[k]
            E_k = tau_k - tau_run
            sym.cover_if('overrun-cycle', waits[k - 1] - starts[k - 1][0] > tock)
            sym.cover_if('sleep-overshoot', env_k > 0)
            sym.cover_if('stalled-clock', env_k == 0)
            if jsum_k != starts[k - 1][2]:
                sym.cover('backward-step-during-wait')
            if E_k < tock * k:
                return Failure('pacing:early:tock-%s:%s' % (part['tock'], 'backward-steps' if part['steps'] else 'steady'),
                               lambda k=k, E_k=E_k: 'cycle %d starts after %r of true elapsed time, earlier than %d tocks = %r (tock at run start %r, at construction %r, backward steps %r at reads %r)' % (
                                   k, E_k, k, tock * k, tock, tock0, jsum_k, pos))
            # lossless: not later than the deadline (or the end of an overrunning cycle) plus what the environment injected
            deadline = tau_run + tock * k + jsum_k + READ_SLACK
            lim = deadline if deadline > waits[k - 1] else waits[k - 1]
            if tau_k > lim + env_k:
                return Failure('pacing:drift:tock-%s:%s' % (part['tock'], 'backward-steps' if part['steps'] else 'steady'),
                               lambda k=k, tau_k=tau_k, lim=lim, env_k=env_k: 'cycle %d starts at true time %r, later than max(deadline, end of previous work)=%r plus injected delay %r' % (
                                   k, tau_k - tau_run, lim - tau_run, env_k))
        return None
    finally:
        doing.time, timing.time = saved


# true time that elapses between do() being called and the timer's own start reading (reads made by start())
READ_SLACK = 0.25 * 2

MUTANTS = [
    ('restart-from-now', 'hio/base/doing.py', "                        self.timer.restart()  #  no time lost", "                        self.timer.start()  #  no time lost"),
    ('timer-started-with-stale-duration', 'hio/base/doing.py', "            self.timer.start(duration=self.tock)  # tock may have changed since init", "            self.timer.start()"),
    ('monotimer-start-keeps-old-last', 'hio/help/timing.py', "            start = self._last = time.time()", "            start = time.time()"),
]
