"""C17 — chunked transfer coding decodes exactly and rejects invalid chunk sizes"""
from vf.engine.base import Failure
from vf.kits import httpkit
from hio.core.http import httping, clienting

ID = 'C17'
EXPLANATION = ("(1) Round trip on the real httping.packChunk / parseChunk / Respondent.parseBody: a body of SYMBOLIC bytes (length fixed per "
               "partition, any byte values incl. CR, LF, ';', '0') is divided into chunks by a solver-chosen cut mask, each chunk encoded with "
               "the real packChunk (optionally with a chunk extension spliced into the size line), terminated by a last chunk with or "
               "without trailers, and decoded: body and trailers must come back exactly, extensions must not disturb it. (2) Size-line "
               "validation: the chunk-size token is a SYMBOLIC byte string (<= 3 bytes over 0-9 a f A F - + x _ space): z3 decides per path "
               "whether it is plain hexadecimal; if not, decoding must report an error (exception or error flag) and attribute no body "
               "bytes; if it is, the size must be its hexadecimal value.")
FUNCTIONS = [('hio.core.http.httping', 'packChunk'), ('hio.core.http.httping', 'parseChunk'), ('hio.core.http.clienting', 'Respondent.parseBody'),
             ('hio.core.http.httping', 'parseLine'), ('hio.core.http.httping', 'parseLeader')]
BOUNDS = {'quick': dict(body=3, size_len=2, budget_s=150, audit_max=8), 'thorough': dict(body=4, size_len=3, budget_s=1200, audit_max=20)}
OUTSIDE = ['bodies longer than the bound', 'size tokens longer than the bound / outside the 11-letter alphabet', 'fragmented delivery (C13)', 'chunk-extension values with quoted strings']
STUBS = []
ASSUMPTIONS = ['optional whitespace around the size token is tolerated (BWS); a size token is valid iff it matches [0-9A-Fa-f]+ after stripping it']
REQUIRED_TAGS = ['multi-chunk', 'single-chunk', 'empty-body', 'extension', 'trailer', 'signed-size', 'prefixed-size', 'underscore-size', 'valid-hex-size', 'body-contains-crlf']
RULE = 'tags: chunk partitions, extensions, trailers, body bytes that look like framing, and the classes of invalid size tokens'
SIZE_ALPHA = b'019afAF-+x_ '
HEX = b'0123456789abcdefABCDEF'


def partitions(tier):
    b = BOUNDS[tier]
    ps = []
    for n in range(0, b['body'] + 1):
        for ext in (False, True):
            for trailer in (False, True):
                ps.append(dict(name='roundtrip-len%d-%s-%s' % (n, 'ext' if ext else 'noext', 'trailer' if trailer else 'notrailer'), form='rt', n=n, ext=ext, trailer=trailer))
    for n in range(1, b['size_len'] + 1):
        ps.append(dict(name='sizeline-len%d' % n, form='size', n=n, narrow=False))
    if tier == 'quick':       # length 3 with the full alphabet only in the middle (quick); thorough does the full cube
        ps.append(dict(name='sizeline-len3-narrow', form='size', n=3, narrow=True))
    return ps


def decode_all(raw):
    """decode a whole chunked body with the real parseChunk; returns (body, trails, parms, exc, sizes)"""
    body = bytearray()
    trails, parms, sizes = None, {}, []
    try:
        while True:
            g = httping.parseChunk(raw=raw)
            r = next(g)
            if r is None:
                return bytes(body), trails, parms, 'incomplete', sizes
            size, p, t, chunk = r
            sizes.append(size)
            parms.update(p)
            if size:
                body.extend(chunk)
            else:
                trails = t
                break
    except Exception as ex:      # noqa
        from vf.engine.symx_guard import guard
        guard(ex)
        return bytes(body), trails, parms, type(ex).__name__, sizes
    return bytes(body), trails, parms, None, sizes


def harness_rt(sym, part):
    n = part['n']
    body = sym.bytes('body', n, minlen=n) if n else b''
    mask = sym.cint('cutmask', 0, (1 << max(n - 1, 0)) - 1)
    cuts = [i + 1 for i in range(n - 1) if (mask >> i) & 1]
    bounds = [0] + cuts + [n]
    chunks = [body[a:b] for a, b in zip(bounds[:-1], bounds[1:]) if b > a]
    enc = bytearray()
    for j, c in enumerate(chunks):
        pk = httping.packChunk(c)
        if part['ext'] and j == 0:
            k = pk.index(b'\r\n')
            pk = pk[:k] + b';name=val;flag' + pk[k:]
        enc.extend(pk)
    enc.extend(b'0\r\n')
    if part['trailer']:
        enc.extend(b'X-Trail: tv\r\nY-Trail: 2\r\n')
        sym.cover('trailer')
    enc.extend(b'\r\n')
    if part['ext'] and chunks:
        sym.cover('extension')
    sym.cover('empty-body' if n == 0 else ('multi-chunk' if len(chunks) > 1 else 'single-chunk'))
    for i in range(n - 1):
        sym.cover_if('body-contains-crlf', body[i] == 13, body[i + 1] == 10)
    B = bytes(body)
    wire = bytes(enc)
    got, trails, parms, exc, sizes = decode_all(bytearray(wire))
    if exc:
        return Failure('roundtrip:decode-fails:%s' % exc, lambda: 'decoding %r (body %r in chunks %r) raised %s' % (wire, B, [len(c) for c in chunks], exc))
    if got != B:
        return Failure('roundtrip:body-differs', lambda: 'body %r in chunks %r decodes to %r (wire %r)' % (B, [len(c) for c in chunks], got, wire))
    exp_tr = (('x-trail', 'tv'), ('y-trail', '2')) if part['trailer'] else ()
    got_tr = tuple(sorted((k.lower(), v) for k, v in trails.items())) if trails else ()
    if got_tr != exp_tr:
        return Failure('roundtrip:trailers-differ', lambda: 'trailers %r expected %r' % (got_tr, exp_tr))
    if part['ext'] and chunks and httpkit.norm(parms) != ((b'name', b'val'), (b'flag', None)):
        return Failure('roundtrip:extension-parameters', lambda: 'chunk extension parameters %r' % (parms,))
    # the same bytes through the client's body parser
    head = b'HTTP/1.1 200 OK\r\nTransfer-Encoding: chunked\r\n\r\n'
    obs, exc2, rest = httpkit.feed_messages(lambda m: clienting.Respondent(msg=m, method='GET'), [head + wire], 1)
    if exc2 or not obs or obs[0]['errored'] or obs[0]['body'] != B or rest:
        return Failure('roundtrip:respondent-differs', lambda: 'Respondent on %r: %r exc=%r rest=%r' % (wire, obs, exc2, rest))
    return None


def is_hex(tok):
    if len(tok) == 0:
        return False
    for c in tok:
        if c not in HEX:
            return False
    return True


def harness_size(sym, part):
    n = part['n']
    tok = sym.bytes('size', n, alphabet=SIZE_ALPHA, minlen=n)
    if part.get('narrow'):
        for i in (0, 2):
            sym.constrain_any([tok[i] == c for c in b'1a -'])
    T = bytes(tok)
    wire = T + b'\r\n' + b'abcdefghijklmnopq\r\n' + b'0\r\n\r\n'
    stripped = T.strip(b' ')
    valid = is_hex(stripped)
    for i in range(n):
        sym.cover_if('signed-size', tok[i] == ord('-'))
        sym.cover_if('signed-size', tok[i] == ord('+'))
        sym.cover_if('prefixed-size', tok[i] == ord('x'))
        sym.cover_if('underscore-size', tok[i] == ord('_'))
    raw = bytearray(wire)
    body, trails, parms, exc, sizes = decode_all(raw)
    if valid:
        sym.cover('valid-hex-size')
        want = int(stripped.decode('ascii'), 16)
        if sizes and sizes[0] == want:
            if want == 17 and (body != b'abcdefghijklmnopq' or exc):
                return Failure('sizeline:valid-hex-body-lost', lambda: 'size token %r: body %r outcome %r' % (T, body, exc))
            return None
        if not sizes and want != 17 and exc:
            return None       # the declared size does not match the 17 data bytes present: an error is the right outcome
        if True:
            return Failure('sizeline:valid-hex-misread', lambda: 'size token %r decoded as %r expected %r (exc %r)' % (T, sizes[:1], want, exc))
        return None
    if exc in (None, 'incomplete') or body:
        kind = 'signed' if (b'-' in T or b'+' in T) else 'prefixed' if b'x' in T else 'underscore' if b'_' in T else 'inner-space' if b' ' in stripped else 'other'
        return Failure('sizeline:invalid-size-accepted:%s' % kind,
                       lambda: 'size token %r is not plain hexadecimal but was read as size %r, body %r, outcome %r' % (T, sizes[:1], body, exc))
    return None


def harness(sym, part):
    return harness_rt(sym, part) if part['form'] == 'rt' else harness_size(sym, part)


MUTANTS = [
    ('chunk-size-lenient-int', 'hio/core/http/httping.py', "    if not size or size.strip(b'0123456789abcdefABCDEF'):  # not 1*HEXDIG, int() is too lenient", "    if not size:"),
]
