"""C05 — run termination and done flags are exact (Doist.do loop, limit Tymer, done assignment)"""
from vf.engine.base import Failure
from vf.kits import sched
from hio.base import doing

ID = 'C05'
EXPLANATION = ("Real Doist.do() (non-real-time) on scripted doers of the four kinds, flat and nested, with SYMBOLIC tock, start tyme, "
               "limit L (none, or a real that need not be a multiple of tock), completion steps and yielded tocks; returned values "
               "True/False/None by driver/realised choice; optionally a doer that returns before its first yield. z3 decides every "
               "tyme comparison (retyme<=tyme, Tymer.expired). Oracle (from the observed completions, independent of the scheduling order which is C03's subject): expected stop cycle = "
               "cycle of the last own-return, or the first cycle whose end tyme >= start+L; final tyme, Doist.done, number of cycles, and every doer's done flag at every recur step (False from enter "
               "until own return; then the returned value, None leaving it falsy) and after the run (never truthy for a closed doer).")
FUNCTIONS = [('hio.base.doing', 'Doist.do'), ('hio.base.doing', 'Doist.enter'), ('hio.base.doing', 'Doist.recur'),
             ('hio.base.doing', 'Doist.exit'), ('hio.base.tyming', 'Tymer.expired'), ('hio.base.tyming', 'Tymer.start'),
             ('hio.base.tyming', 'Tymist.tick'), ('hio.base.doing', 'DoDoer.do'), ('hio.base.doing', 'DoDoer.recur'),
             ('hio.base.doing', 'DoDoer.exit'), ('hio.base.doing', 'Doer.do')]
BOUNDS = {'quick': dict(max_fin=2, simple_fin=1, max_cycles=8, budget_s=150, audit_max=10),
          'thorough': dict(max_fin=3, simple_fin=2, max_cycles=12, budget_s=1500, audit_max=40)}
OUTSIDE = ['IEEE-754 rounding', 'real-time mode', 'limit == 0 (hio treats a falsy limit as "no limit"; the docstring only says None means no limit)',
           'yielded tocks larger than 2 scheduler tocks and limits larger than 4 scheduler tocks (bounds the number of cycles)',
           'Python >= 3.13 generator.close() return values', 're-running the same Doist twice (see C30 partition rerun)']
STUBS = []
ASSUMPTIONS = ['float arithmetic modelled as real arithmetic', 'tock in [1/64, 2], start in [-4, 4], yielded t in [0, 2*tock], limit in [1/64, 4*tock]']
REQUIRED_TAGS = ['limit-not-multiple-of-tock', 'all-complete-at-enter', 'returns-None', 'returns-False', 'closed-by-limit', 'completes-without-limit', 'limit-stop-at-cycle-boundary']
RULE = 'tags: limit not a multiple of tock, every doer done at enter, falsy/None return values, doers closed by the limit'

SHAPES = {'flat1': ['a'], 'flat2': ['a', 'b'], 'flat3': ['a', 'b', 'c'], 'nestL': [['a', 'b'], 'c'], 'nest1': [['a']], 'nestR': ['a', ['b', 'c']]}
KINDSETS = {'k0': {'a': 'plain', 'b': 'gen', 'c': 'func'}, 'k1': {'a': 'gen', 'b': 'meth', 'c': 'plain'},
            'k2': {'a': 'func', 'b': 'plain', 'c': 'gen'}, 'k3': {'a': 'meth', 'b': 'func', 'c': 'meth'}}


def partitions(tier):
    b = BOUNDS[tier]
    ps = []
    for j, sh in enumerate(SHAPES):
        names = sched.leaves(SHAPES[sh])
        for lim in ('nolimit', 'limit'):
            kss = (('k0', 'k1', 'k2', 'k3')[(j + (lim == 'limit')) % 4],) if tier == 'quick' else tuple(KINDSETS)
            for ks in kss:
                for rich in names:
                    ps.append(dict(name='%s-%s-%s-rich_%s' % (sh, lim, ks, rich), shape=sh, kinds=ks, lim=lim, rich=rich,
                                   max_fin=b['max_fin'], simple_fin=b['simple_fin'] if len(names) > 1 else b['max_fin'],
                                   max_cycles=b['max_cycles']))
    return ps


class Overrun(Exception):
    pass


def scenario(sym, part, rets=(True, False, None)):
    """symbolic scripts + forest; returns dict"""
    shape = SHAPES[part['shape']]
    kinds = KINDSETS[part['kinds']]
    names = sched.leaves(shape)
    tock = sym.real('tock', 1 / 64, 2)
    start = sym.real('start', -4, 4)
    L = None
    if part['lim'] == 'limit':
        L = sym.real('limit', 1 / 64, 8)
        sym.constrain(L <= tock * 4)
    w = sched.World()
    scripts = {}
    er_all = None
    for n in names:
        if n == part['rich']:
            fin = sym.int('fin_' + n, 0, part['max_fin'])
            tocks = [sym.real('t_%s%d' % (n, i), 0, 4) for i in range(part['max_fin'])]
            for t in tocks:
                sym.constrain(t <= tock * 2)
        else:
            fin = sym.int('fin_' + n, 0, part['simple_fin'])
            tocks = [0.0] * part['simple_fin']
        ret = True
        if kinds[n] != 'plain' and n == part['rich']:
            ret = sym.choice('ret_' + n, rets)
        er = False
        if kinds[n] in ('func', 'meth'):
            if er_all is None:
                er_all = sym.cbool('enter_returns')
            er = er_all
        scripts[n] = sched.Script(n, fin=fin, ret=ret, tocks=tocks, enter_returns=er)
    top, parents = sched.build(w, shape, scripts, kinds)
    w.watch_done = tuple(names)
    return dict(shape=shape, kinds=kinds, names=names, tock=tock, start=start, L=L, w=w, scripts=scripts, top=top, parents=parents)


def climit(sc, max_cycles):
    """first cycle count c >= 1 whose end tyme start + c*tock >= start + L (None if no limit)"""
    if sc['L'] is None:
        return None
    T = sc['start']
    for c in range(1, max_cycles + 1):
        T = T + sc['tock']
        if T >= sc['start'] + sc['L']:
            return c
    raise Overrun()


def done_ok(kind, ret, done):
    """done flag of a doer that finished on its own with value `ret`"""
    if kind == 'plain':
        return done is True
    if ret is None:
        return done is None or done is False
    return done is ret


def check_flags(sc):
    """every snapshot taken at a recur step: doers that have not returned yet have done False; returned ones their value"""
    w, scripts, kinds, names = sc['w'], sc['scripts'], sc['kinds'], sc['names']
    returned = {}
    k = 0
    for (n, e, t) in w.trace:
        if e == 'return':
            returned[n] = True
        elif e == 'recur':
            who, snap = w.flags[k]
            k += 1
            for (x, d) in snap:
                if x == who:
                    pass
                if returned.get(x):
                    if not done_ok(kinds[x], scripts[x].ret, d):
                        return Failure('flags:finished-doer-done-wrong', lambda x=x, d=d, who=who: 'at a recur of %s: %s.done=%r after returning %r' % (who, x, d, scripts[x].ret))
                elif any(m == x and ev == 'enter' for (m, ev, _) in w.trace):
                    if d is not False:
                        return Failure('flags:running-doer-done-not-False', lambda x=x, d=d, who=who: 'at a recur of %s: %s.done=%r while %s has not returned' % (who, x, d, x))
    return None


def harness(sym, part, runner=None):
    sc = scenario(sym, part)
    names, scripts, kinds, w = sc['names'], sc['scripts'], sc['kinds'], sc['w']
    try:
        cl = climit(sc, part['max_cycles'])
    except Overrun:
        sym.assume(False)
    doist = doing.Doist(tock=sc['tock'], tyme=sc['start'], real=False, doers=sc['top'])
    orig_recur = doist.recur
    count = [0]

    def counted(deeds=None):     # marks cycle boundaries in the trace; guards against a non-terminating loop
        count[0] += 1
        if count[0] > part['max_cycles'] + 3:
            raise Overrun()
        w.ev('*', 'cycle', count[0])
        return orig_recur(deeds)
    doist.recur = counted
    try:
        if sc['L'] is None:
            doist.do()
        else:
            doist.do(limit=sc['L'])
    except Overrun:
        if sc['L'] is None and not all(any(m == n and e == 'return' for (m, e, _) in w.trace) for n in names):
            sym.assume(False)      # the scripts themselves need more cycles than the bound: outside the claim
        return Failure('termination:runs-past-expected-stop', lambda: 'do() still cycling after %d cycles (tock=%r L=%r)' % (count[0], sc['tock'], sc['L']))
    # completion cycle of every doer, from the trace (cycle 0 = enter)
    comp = {}
    cyc = 0
    for (n, e, t) in w.trace:
        if e == 'cycle':
            cyc = t
        elif e == 'return':
            comp[n] = cyc
    allc = all(n in comp for n in names)
    last = max([comp[n] for n in comp] + [1])
    if cl is None:
        expN, expDone = last, True
        if not allc:
            return Failure('termination:returned-with-live-doers', lambda: 'no limit, do() returned after %d cycles but %r never returned' % (count[0], [n for n in names if n not in comp]))
    elif allc and last <= cl:
        expN, expDone = last, True
    else:
        expN, expDone = cl, False
    # coverage
    if sc['L'] is not None:
        for kk in range(1, 5):
            sym.cover_if('limit-not-multiple-of-tock', sc['L'] > sc['tock'] * kk, sc['L'] < sc['tock'] * (kk + 1))
            sym.cover_if('limit-stop-at-cycle-boundary', sc['L'] == sc['tock'] * kk)
        if not expDone:
            sym.cover('closed-by-limit')
    elif expDone:
        sym.cover('completes-without-limit')
    if all(scripts[n].enter_returns for n in names):
        sym.cover('all-complete-at-enter')
    for n in names:
        if kinds[n] != 'plain' and scripts[n].ret is None:
            sym.cover('returns-None')
        if kinds[n] != 'plain' and scripts[n].ret is False:
            sym.cover('returns-False')
    if count[0] != expN:
        return Failure('termination:cycle-count', lambda: 'do() ran %d cycles, expected %d (last completion in cycle %r, limit cycle %r; tock=%r start=%r L=%r)' % (
            count[0], expN, last, cl, sc['tock'], sc['start'], sc['L']))
    T = sc['start']
    for c in range(expN):
        T = T + sc['tock']
    if doist.tyme != T:
        return Failure('termination:final-tyme', lambda: 'final tyme %r expected %r' % (doist.tyme, T))
    if doist.done is not expDone:
        return Failure('done:doist-done', lambda: 'Doist.done=%r expected %r (completions %r, L=%r tock=%r)' % (doist.done, expDone, comp, sc['L'], sc['tock']))
    f = check_flags(sc)
    if f:
        return f
    for n in names:
        d = sched.done_of(w.doers[n])
        if n in comp:
            if not done_ok(kinds[n], scripts[n].ret, d):
                return Failure('done:completed-doer', lambda n=n, d=d: '%s (%s) returned %r but done=%r' % (n, kinds[n], scripts[n].ret, d))
        else:
            if d:
                return Failure('done:closed-doer-truthy', lambda n=n, d=d: '%s was force-closed but done=%r' % (n, d))
            if d is not False:
                return Failure('done:closed-doer-not-False', lambda n=n, d=d: '%s was force-closed, done=%r (expected False)' % (n, d))
    return None


MUTANTS = [
    ('limit-strict', 'hio/base/tyming.py', "        return (self.tyme >= self._stop)", "        return (self.tyme > self._stop)"),
    ('done-truthy-on-close', 'hio/base/doing.py',
     "        except GeneratorExit:  # close context, forced exit due to .close on generator\n            self.cease()\n",
     "        except GeneratorExit:  # close context, forced exit due to .close on generator\n            self.cease()\n            self.done = True\n"),
]
