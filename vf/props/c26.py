"""C26 — Base64 integer and code conversions are exact inverses (engine E2: AST -> z3 on the real helping.py source)"""
import math
import os
import random
import subprocess
import tempfile
import time

import z3

from vf.engine.base import Failure
from vf.engine import smtpy
from vf.engine.smtpy import SSeq, Raised, W
from hio.help import helping

ID = 'C26'
TECHNIQUE = ('direct translation of the real function source (ast of inspect.getsource) into z3 bit-vector / floating-point terms; '
             'negated property + no-overflow side conditions checked per path; unsat = holds for all values in the bound; models are '
             'replayed on the real functions; every encoding change is validated against the real functions on concrete vectors and '
             'a sample of queries is cross-checked on a second solver binary')
EXPLANATION = ("Engine E2: intToB64, intToB64b, b64ToInt, codeB64ToB2, codeB2ToB64, nabSextets are translated from their real source at "
               "run time into z3 (ints as 96-bit vectors with proof obligations that no operation exceeds the width, '/' as IEEE "
               "double division, the B64 tables as ITE chains, loops unrolled with an unwinding assertion). Obligations (negated, "
               "unsat expected): b64ToInt(intToB64(i,l)) == i and len >= l for all 0 <= i < 64**10, l = 1..8 (str and bytes forms); "
               "codeB2ToB64(codeB64ToB2(s), n) == s and len(codeB64ToB2(s)) == ceil(3n/4) for all n-character Base64 strings, "
               "n = 1..8; nabSextets(b, n) and codeB2ToB64(b, n) keep exactly the leading 6n bits (zero pad / right aligned) for all "
               "byte strings of the needed length plus 0..2 extra bytes; characters outside the alphabet raise.")
FUNCTIONS = [('hio.help.helping', 'intToB64'), ('hio.help.helping', 'intToB64b'), ('hio.help.helping', 'b64ToInt'),
             ('hio.help.helping', 'codeB64ToB2'), ('hio.help.helping', 'codeB2ToB64'), ('hio.help.helping', 'nabSextets')]
BOUNDS = {'quick': dict(max_int='64**10', max_l=8, max_code=6, extra_bytes=1, budget_s=300, validate=40),
          'thorough': dict(max_int='64**10', max_l=10, max_code=8, extra_bytes=2, budget_s=1800, validate=200)}
OUTSIDE = ['minimum length l = 0: intToB64(i, 0) returns the empty string by design (tests/help/test_helping.py asserts it and that b64ToInt("") raises ValueError), so the round trip is only claimed for l >= 1', 'integers >= 64**10 (memo headers use < 64**4)', 'minimum lengths / code lengths above the bound', 'non-ASCII str input (decode of invalid UTF-8)',
           'negative integers (the property quantifies over non-negative ones)']
STUBS = ['sceil(x) evaluated concretely (its argument only depends on the concrete length)']
ASSUMPTIONS = ['z3 bit-vector and floating-point theories; width 96 with explicit no-overflow obligations on every add/mul/shift/to_bytes',
               'B64ChrByIdx / B64IdxByChr are read from the imported module and checked against the standard URL-safe alphabet at start']
REQUIRED_TAGS = ['int-roundtrip', 'int-roundtrip-bytes', 'code-roundtrip', 'nab-leading-bits', 'b2-to-b64-leading-bits', 'non-alphabet-raises']
RULE = 'one evaluation = one path of one obligation; non-trivial = the path reaches the property with symbolic inputs (not an input-validation exit)'
SOLVER_ROLE = 'proves each negated obligation unsat over all values in the bound (real solver reasoning, not enumeration)'
ALPHABET = 'ABCDEFGHIJKLMNOPQRSTUVWXYZabcdefghijklmnopqrstuvwxyz0123456789-_'
MAXI = 64 ** 10


def partitions(tier):
    b = BOUNDS[tier]
    ps = []
    for l in range(1, b['max_l'] + 1):      # l = 0 is outside the domain: the repo's own test pins intToB64(i, l=0) == '' (empty conversion)
        ps.append(dict(name='int-l%d' % l, kind='int', l=l, form='str'))
    for l in (1, 2, 4):
        ps.append(dict(name='intb-l%d' % l, kind='int', l=l, form='bytes'))
    for n in range(1, b['max_code'] + 1):
        ps.append(dict(name='code-n%d' % n, kind='code', n=n))
        for m in range(0, b['extra_bytes'] + 1):
            ps.append(dict(name='nab-n%d-x%d' % (n, m), kind='nab', n=n, extra=m))
            ps.append(dict(name='b2b64-n%d-x%d' % (n, m), kind='b2b64', n=n, extra=m))
    ps.append(dict(name='nonalpha', kind='nonalpha'))
    for p in ps:
        p['validate'] = b['validate']
    return ps


def interp():
    assert ''.join(helping.B64ChrByIdx[i] for i in range(64)) == ALPHABET and all(helping.B64IdxByChr[c] == i for i, c in enumerate(ALPHABET)), \
        "Base64 tables differ from the URL-safe alphabet"
    tables = {'B64ChrByIdx': smtpy.Table(helping.B64ChrByIdx), 'B64IdxByChr': smtpy.Table(helping.B64IdxByChr)}
    return smtpy.Interp(helping, tables, unwind=14)


def need(n):
    return int(math.ceil(n * 3 / 4))


def chars(vals):
    return ''.join(chr(v) for v in vals)


# ---- the obligations, each as (symbolic inputs, assumptions, fn(interp), goal(result), concrete oracle) ----

def build(part):
    k = part['kind']
    if k == 'int':
        i = z3.BitVec('i', W)
        l = part['l']
        asm = [z3.ULT(i, z3.BitVecVal(MAXI, W))]

        def fn(it):
            s = it.call('intToB64' if part['form'] == 'str' else 'intToB64b', [i, l])
            back = it.call('b64ToInt', [s])
            return (s, back)

        def goal(res):
            if isinstance(res, Raised):
                return False
            s, back = res
            if len(s) < l or len(s) < 1:
                return False
            return smtpy.bv(back) == i
        return dict(vars=dict(i=i), asm=asm, fn=fn, goal=goal)
    if k == 'code':
        n = part['n']
        cs = [z3.BitVec('c%d' % j, W) for j in range(n)]
        asm = [z3.Or(*[c == ord(a) for a in ALPHABET]) for c in cs]

        def fn(it):
            b = it.call('codeB64ToB2', [SSeq('str', cs)])
            back = it.call('codeB2ToB64', [b, n])
            return (b, back)

        def goal(res):
            if isinstance(res, Raised):
                return False
            b, back = res
            if len(b) != need(n) or len(back) != n:
                return False
            return z3.And(*[smtpy.bv(x) == c for x, c in zip(back.elems, cs)])
        return dict(vars={'c%d' % j: c for j, c in enumerate(cs)}, asm=asm, fn=fn, goal=goal)
    if k in ('nab', 'b2b64'):
        n = part['n']
        m = need(n) + part['extra']
        bs = [z3.BitVec('b%d' % j, W) for j in range(m)]
        asm = [z3.ULT(b, 256) for b in bs]
        p = 2 * (n % 4)
        B = z3.BitVecVal(0, W)
        for b in bs[:need(n)]:
            B = (B << 8) | b
        if k == 'nab':
            def fn(it):
                return it.call('nabSextets', [SSeq('bytes', bs), n])

            def goal(res):
                if isinstance(res, Raised) or len(res) != need(n):
                    return False
                R = z3.BitVecVal(0, W)
                for x in res.elems:
                    R = (R << 8) | smtpy.bv(x)
                return z3.And(z3.LShR(R, p) == z3.LShR(B, p), (R & ((1 << p) - 1)) == 0)
        else:
            def fn(it):
                return it.call('codeB2ToB64', [SSeq('bytes', bs), n])

            def goal(res):
                if isinstance(res, Raised) or len(res) != n:
                    return False
                top = z3.LShR(B, p)        # the leading 6n bits, right aligned
                conds = []
                for j, x in enumerate(res.elems):
                    sext = z3.LShR(top, 6 * (n - 1 - j)) & 63
                    exp = z3.BitVecVal(0, W)
                    for idx, ch in enumerate(ALPHABET):
                        exp = z3.If(sext == idx, z3.BitVecVal(ord(ch), W), exp)
                    conds.append(smtpy.bv(x) == exp)
                return z3.And(*conds)
        return dict(vars={'b%d' % j: b for j, b in enumerate(bs)}, asm=asm, fn=fn, goal=goal)
    if k == 'nonalpha':
        c = z3.BitVec('c', W)
        asm = [z3.ULT(c, 128), z3.And(*[c != ord(a) for a in ALPHABET])]

        def fn(it):
            return it.call('b64ToInt', [SSeq('str', [ord('A'), c, ord('B')])])

        def goal(res):
            return isinstance(res, Raised) and res.name in ('KeyError', 'ValueError')
        return dict(vars=dict(c=c), asm=asm, fn=fn, goal=goal)
    raise ValueError(k)


def concrete(part, vals):
    """the same property evaluated on the REAL functions with concrete inputs -> Failure | None"""
    k = part['kind']
    try:
        if k == 'int':
            i, l = vals['i'], part['l']
            s = helping.intToB64(i, l) if part['form'] == 'str' else helping.intToB64b(i, l)
            if len(s) < l or len(s) < 1:
                return Failure('int-roundtrip:l=%d:short-output' % (0 if l == 0 else 1), 'intToB64(%d, %d) = %r: fewer than max(l, 1) characters' % (i, l, s))
            back = helping.b64ToInt(s)
            if back != i:
                return Failure('int-roundtrip:wrong-value', 'b64ToInt(intToB64(%d, %d)=%r) = %d' % (i, l, s, back))
        elif k == 'code':
            s = chars(vals['c%d' % j] for j in range(part['n']))
            b = helping.codeB64ToB2(s)
            if len(b) != need(part['n']):
                return Failure('code-roundtrip:length', 'codeB64ToB2(%r) has %d bytes' % (s, len(b)))
            back = helping.codeB2ToB64(b, part['n'])
            if back != s:
                return Failure('code-roundtrip:wrong-value', 'codeB2ToB64(codeB64ToB2(%r)=%r, %d) = %r' % (s, b, part['n'], back))
        elif k in ('nab', 'b2b64'):
            n = part['n']
            b = bytes(vals['b%d' % j] for j in range(need(n) + part['extra']))
            p = 2 * (n % 4)
            B = int.from_bytes(b[:need(n)], 'big')
            if k == 'nab':
                r = helping.nabSextets(b, n)
                R = int.from_bytes(r, 'big')
                if len(r) != need(n) or (R >> p) != (B >> p) or R & ((1 << p) - 1):
                    return Failure('nab:leading-bits', 'nabSextets(%r, %d) = %r' % (b, n, r))
            else:
                r = helping.codeB2ToB64(b, n)
                top = B >> p
                exp = ''.join(ALPHABET[(top >> (6 * (n - 1 - j))) & 63] for j in range(n))
                if r != exp:
                    return Failure('b2b64:leading-bits', 'codeB2ToB64(%r, %d) = %r expected %r' % (b, n, r, exp))
        elif k == 'nonalpha':
            s = 'A' + chr(vals['c']) + 'B'
            try:
                v = helping.b64ToInt(s)
            except (KeyError, ValueError):
                return None
            return Failure('nonalpha:accepted', 'b64ToInt(%r) = %r' % (s, v))
    except Exception as ex:
        return Failure('%s:raises:%s' % (k, type(ex).__name__), '%s on %r: %r' % (k, vals, ex))
    return None


def rand_vals(part, rng):
    k = part['kind']
    if k == 'int':
        return dict(i=rng.choice([0, 1, 63, 64, 4095, 4096, MAXI - 1, rng.randrange(MAXI), rng.randrange(1 << 20), (1 << 53) + rng.randrange(1 << 6)]))
    if k == 'code':
        return {'c%d' % j: ord(rng.choice(ALPHABET)) for j in range(part['n'])}
    if k in ('nab', 'b2b64'):
        return {'b%d' % j: rng.randrange(256) for j in range(need(part['n']) + part['extra'])}
    return dict(c=rng.choice([ord(x) for x in '+/=!@ .~'] + [0, 127]))


def validate_translation(paths, part, ob, n, rng):
    """Serval-style: push concrete vectors through the REAL function and through the encoding (the vector is
    substituted into every path condition to find the path it takes, then into the property and the side
    conditions); any difference between the two verdicts is a translator fault"""
    bad = []
    for _ in range(n):
        vals = rand_vals(part, rng)
        sub = [(v, z3.BitVecVal(vals[k], W)) for k, v in ob['vars'].items()]
        real = concrete(part, vals)
        taken = 0
        for pc, res, obligations in paths:
            if not all(z3.is_true(z3.simplify(z3.substitute(c, *sub))) for c in pc):
                continue
            taken += 1
            g = ob['goal'](res)
            holds = (g is True) or (g is not False and z3.is_true(z3.simplify(z3.substitute(g, *sub))))
            obs_ok = all(z3.is_true(z3.simplify(z3.substitute(o, *sub))) for (_, o) in obligations)
            if obs_ok and holds != (real is None):
                bad.append('inputs %r: encoding says %s, real code says %s' % (vals, 'holds' if holds else 'fails', 'holds' if real is None else real.sig))
        if taken != 1:
            bad.append('inputs %r satisfy %d path conditions (expected exactly 1)' % (vals, taken))
    return bad


def cross_check(smt2s, limit=6):
    """a sample of the discharged queries on the second solver binary (/usr/bin/z3 4.8.12)"""
    z3bin = '/usr/bin/z3'
    out = dict(checked=0, disagreements=0, inconclusive=0)
    if not os.path.exists(z3bin):
        return out
    for text in smt2s[:limit]:
        with tempfile.NamedTemporaryFile('w', suffix='.smt2', dir='/dev/shm', delete=False) as f:
            f.write(text)
            name = f.name
        try:
            p = subprocess.run([z3bin, '-T:60', name], capture_output=True, text=True, timeout=90)
            ans = p.stdout.strip().splitlines()[0] if p.stdout.strip() else ''
            out['checked'] += 1
            if '(error' in p.stdout or ans not in ('sat', 'unsat'):
                out['inconclusive'] += 1
            elif ans != 'unsat':
                out['disagreements'] += 1
        except subprocess.TimeoutExpired:
            out['inconclusive'] += 1
        finally:
            os.unlink(name)
    return out


def run_partition(part, opts):
    t0 = time.process_time()
    rng = random.Random(opts.get('seed', 0) * 7919 + hash(part['name']) % 1000)
    it = interp()
    ob = build(part)
    res = dict(paths=0, confirmed=0, unknown=0, ignored=0, exhausted=False, violations={}, viol_paths=0, tags={}, nontrivial=0,
               samples=[], audit=dict(checked=0, mismatches=[]), errors=[], unknown_reasons={})
    tag = {'int': 'int-roundtrip' if part.get('form') == 'str' else 'int-roundtrip-bytes', 'code': 'code-roundtrip', 'nab': 'nab-leading-bits',
           'b2b64': 'b2-to-b64-leading-bits', 'nonalpha': 'non-alphabet-raises'}[part['kind']]
    try:
        paths = list(it.run_all(ob['fn'], ob['asm']))
        bad = validate_translation(paths, part, ob, part['validate'], rng)
        res['audit']['checked'] = part['validate']
        res['audit']['mismatches'] = [dict(error=b) for b in bad[:3]]
        out = smtpy.prove(it, ob['fn'], ob['asm'], ob['goal'], part['name'], paths=paths)
    except smtpy.Untranslatable as ex:
        out = dict(status='untranslatable', detail=str(ex), paths=0, queries=0)
    res['paths'] = out.get('paths', 0)
    res['queries'] = out.get('queries', 0) + it.solver_calls
    res['solver_s'] = out.get('wall_s', 0.0)
    if out['status'] == 'unsat':
        res['confirmed'] = res['paths']
        res['nontrivial'] = res['paths']
        res['exhausted'] = True
        res['tags'][tag] = res['paths']
        cc = cross_check(out.get('smt2', []))
        res['cross_check'] = cc
        if cc['disagreements']:
            res['errors'].append('second solver disagrees on %d of %d sampled queries' % (cc['disagreements'], cc['checked']))
        res['samples'].append(dict(inputs=dict(obligation=part['name'], assumptions=[str(a)[:120] for a in ob['asm'][:2]]), tags=[tag], notes={},
                                   outcome='unsat on %d paths, %d queries; second solver agreed on %d sampled queries' % (res['paths'], out['queries'], cc['checked'] - cc['inconclusive'])))
    elif out['status'] == 'sat':
        m = out['model']
        vals = {k: m.eval(v, model_completion=True).as_long() for k, v in ob['vars'].items()}
        f = concrete(part, vals)
        sig = f.sig if f is not None else 'not-reproducible:%s' % out['detail'].replace(' ', '-')
        res['violations'][sig] = dict(sig=sig, why='%s (failed condition: %s; symbolic result %s)' % (f.why if f else 'model does not reproduce on the real functions', out['detail'], out.get('result', '')[:200]),
                                      inputs=vals, part=part)
        res['viol_paths'] = 1
        res['confirmed'] = res['paths']
        res['exhausted'] = True      # this obligation is decided (violated)
        res['tags'][tag] = 1
    elif out['status'] == 'untranslatable':
        # the current source of the function cannot be encoded: never a pass.  Fall back to concrete evaluation of
        # boundary vectors so that a plainly broken function is still reported, and flag the partition as not decided.
        res['unknown'] = 1
        res['unknown_reasons']['untranslatable: ' + out['detail'][:80]] = 1
        for _ in range(400):
            vals = rand_vals(part, rng)
            f = concrete(part, vals)
            if f is not None:
                res['violations'][f.sig] = dict(sig=f.sig, why=f.why + ' (found by concrete boundary vectors after the source could not be encoded: ' + out['detail'] + ')', inputs=vals, part=part)
                res['viol_paths'] = 1
                break
    else:
        res['unknown'] = 1
        res['unknown_reasons'][out['detail'][:80]] = 1
    res['cpu_s'] = time.process_time() - t0
    res['functions_encoded'] = sorted(it.encoded)
    return res


def replay(cex, inputs, part):
    return concrete(part, {k: int(v) for k, v in inputs.items()})


MUTANTS = [
    ('shift-by-5', 'hio/help/helping.py', "        i |= B64IdxByChr[c] << (e * 6)", "        i |= B64IdxByChr[c] << (e * 6 if e < 9 else e * 6 - 1)"),
    ('float-division', 'hio/help/helping.py', "        i = i // 64\n", "        i = int(i / 64)\n"),
]
