"""C06 — runtime extend/remove take effect exactly and preserve membership"""
from collections import deque
from vf.engine.base import Failure
from vf.kits import sched
from vf.props import c01
from hio.base import doing

ID = 'C06'
EXPLANATION = ("Two forms on the real Doist / DoDoer(always=True) / DoDoer code. (1) Histories through the public API: extend/remove calls "
               "issued from inside running doers (driver fixes shape, calling doer and act; step, targets - self, sibling earlier/later in "
               "the cycle, already-completed, absent, duplicate, present - solver-chosen) and a trace oracle: extended doers are entered "
               "before extend() returns, first recur in the NEXT cycle, adding a present doer produces no event; removed doers get cease "
               "then exit before remove() returns and never recur again except a doer removing itself, which runs on until it returns; "
               "the scheduler's .doers list always equals previous list minus removed plus new ones in argument order without duplicates. "
               "(2) Inductive step: arbitrary pre-state built directly (membership mask over 4 doers of the 4 kinds, symbolic subset still "
               "alive, cycle marker at a symbolic index, symbolic rotation of the deeds deque), one remove()/extend() with 0-2 symbolic "
               "arguments, same invariants + marker multiplicity unchanged + order of surviving deeds unchanged.")
FUNCTIONS = [('hio.base.doing', 'Doist.extend'), ('hio.base.doing', 'Doist.remove'), ('hio.base.doing', 'Doist.enter'),
             ('hio.base.doing', 'Doist.exit'), ('hio.base.doing', 'Doist.recur'), ('hio.base.doing', 'DoDoer.extend'),
             ('hio.base.doing', 'DoDoer.remove'), ('hio.base.doing', 'DoDoer.enter'), ('hio.base.doing', 'DoDoer.exit'),
             ('hio.base.doing', 'DoDoer.recur')]
BOUNDS = {'quick': dict(max_fin=2, faults=1, max_limit=3, step_args=2, budget_s=120, audit_max=6),
          'thorough': dict(max_fin=2, faults=1, max_limit=4, step_args=3, budget_s=1200, audit_max=20)}
OUTSIDE = c01.OUTSIDE[:4] + ['extend of a doer that is running under a different scheduler', 'extend whose new doer raises in enter (C01)']
STUBS = []
ASSUMPTIONS = c01.ASSUMPTIONS
REQUIRED_TAGS = ['extend-new', 'extend-present', 'extend-duplicate-args', 'remove-sibling', 'remove-self', 'remove-completed',
                 'remove-absent', 'remove-duplicate-args', 'always-dodoer', 'step-marker-mid-deque']
RULE = 'tags: kinds of extend/remove targets of the quantifier (self, sibling, completed, absent, duplicates, present), DoDoer(always=True), marker inside the deque'
ACTS = ['remove', 'remove2', 'remove-dup', 'remove-absent', 'extend', 'extend-dup', 'extend-present', 'extend-then-remove']


def partitions(tier):
    b = BOUNDS[tier]
    ps = []
    for sh in ('flat4', 'alw', 'nest'):
        for who in (('a', 'b', 'd') if sh != 'flat4' else ('a', 'b', 'c', 'd')):
            for act in ACTS:
                ps.append(dict(name='hist-%s-%s-%s' % (sh, act, who), form='hist', shape=sh, act=act, who=who, oracle='c06', no_enter_raise=True,
                               max_fin=b['max_fin'], max_limit=b['max_limit'], faults=1))
    for host in ('doist', 'dodoer'):
        for op in ('remove', 'extend'):
            for nargs in range(0, b['step_args'] + 1):
                ps.append(dict(name='step-%s-%s-%dargs' % (host, op, nargs), form='step', host=host, op=op, nargs=nargs))
    return ps


def oracle_hist(sym, w, info, part):
    tr = w.trace
    who = part['who']
    cyc = 0
    cycle_of = []
    for (n, e, t) in tr:
        if e == 'cycle':
            cyc = t
        cycle_of.append(cyc)
    for i, (n, e, t) in enumerate(tr):
        if e in ('call-extend', 'call-remove'):
            args, before = t
            j = [k for k in range(i + 1, len(tr)) if tr[k][0] == n and tr[k][1] == e.replace('call', 'ret')][0]
            after = tr[j][2][1]
            window = tr[i + 1:j]
            raised = (j + 1 < len(tr) and tr[j + 1][1] == 'abort' and tr[j + 1][0] == n) or info['exc'] not in (None, 'Boom') and False
            if e == 'call-extend':
                new = []
                for a in args:
                    if a not in before and a not in new:
                        new.append(a)
                if len(set(args)) < len(args):
                    sym.cover('extend-duplicate-args')
                if any(a in before for a in args):
                    sym.cover('extend-present')
                if new:
                    sym.cover('extend-new')
                if list(after) != list(before) + new:
                    return Failure('extend:doers-list', lambda: 'extend(%r): .doers %r -> %r, expected %r' % (args, before, after, list(before) + new))
                entered = [m for (m, ev, _) in window if ev == 'enter']
                if entered != new:
                    return Failure('extend:enter-events', lambda: 'extend(%r) with .doers %r entered %r during the call, expected exactly %r' % (args, before, entered, new))
                for a in new:        # first recur in the next cycle, not the current one
                    rec = [k for k in range(j, len(tr)) if tr[k][0] == a and tr[k][1] == 'recur']
                    if rec:
                        if cycle_of[rec[0]] != cycle_of[i] + 1:
                            return Failure('extend:first-recur-cycle', lambda a=a, rec=rec: 'extended %s first recurs in cycle %r, extend happened in cycle %r' % (a, cycle_of[rec[0]], cycle_of[i]))
                        sent, seen = tr[rec[0]][2]
                        if sent != float(cycle_of[rec[0]] - 1) or seen != sent:
                            return Failure('extend:first-recur-tyme', lambda a=a: 'extended %s first recur tyme %r/%r in cycle %r (tock 1.0, start 0)' % (a, sent, seen, cycle_of[rec[0]]))
                    else:
                        # never recurred: only acceptable if the run stopped before the next cycle began or it was removed
                        nxt = [k for k in range(j, len(tr)) if tr[k][1] == 'cycle']
                        removed = any(ev == 'call-remove' and a in tt[0] for (_, ev, tt) in tr[j:] if ev == 'call-remove')
                        if nxt and not removed and not any(tr[k][1] in ('cease', 'abort') and tr[k][0] == a for k in range(j, nxt[0])):
                            # next cycle started with the doer alive, it must run in it (retyme = enter tyme <= next tyme)
                            ran_next = any(tr[k][0] == a and tr[k][1] == 'recur' for k in range(nxt[0], len(tr)))
                            if not ran_next and not any(tr[k][0] == a and tr[k][1] in ('cease', 'abort') for k in range(nxt[0], len(tr)) if cycle_of[k] == cycle_of[nxt[0]]):
                                return Failure('extend:never-recurs', lambda a=a: 'extended %s never recurs although a next cycle ran' % a)
            else:
                rem = []
                for a in args:
                    if a in before and a not in rem:
                        rem.append(a)
                if len(set(args)) < len(args):
                    sym.cover('remove-duplicate-args')
                if any(a not in before for a in args):
                    sym.cover('remove-absent')
                exp = [x for x in before if x not in rem]
                if list(after) != exp:
                    return Failure('remove:doers-list', lambda: 'remove(%r): .doers %r -> %r, expected %r' % (args, before, after, exp))
                for a in rem:
                    alive = any(m == a and ev == 'enter' for (m, ev, _) in tr[:i]) and not any(m == a and ev == 'exit' for (m, ev, _) in tr[:i])
                    if a == n:
                        sym.cover('remove-self')
                        if any(m == a and ev in ('cease', 'exit') for (m, ev, _) in window):
                            return Failure('remove:self-closed-while-running', lambda: 'doer %s removing itself was closed inside remove()' % a)
                        continue
                    if not alive:
                        sym.cover('remove-completed')
                        if any(m == a for (m, ev, _) in window):
                            return Failure('remove:completed-doer-touched', lambda a=a: 'events for already finished %s during remove: %r' % (a, window))
                        continue
                    sym.cover('remove-sibling')
                    evs = [ev for (m, ev, _) in window if m == a and ev in ('cease', 'exit', 'abort', 'clean', 'recur')]
                    if evs != ['cease', 'exit']:
                        return Failure('remove:not-ceased-then-exited-before-return', lambda a=a, evs=evs: 'removed live doer %s: events inside remove() %r, expected cease, exit' % (a, evs))
                    if any(m == a and ev == 'recur' for (m, ev, _) in tr[j:]):
                        return Failure('remove:recurs-after-removal', lambda a=a: 'removed doer %s recurs after remove() returned' % a)
                # doers not named must not be touched
                for (m, ev, _) in window:
                    if m not in rem and m != '*' and ev in ('cease', 'exit', 'abort', 'enter'):
                        return Failure('remove:bystander-touched', lambda m=m, ev=ev: 'remove(%r) caused %s of bystander %s' % (args, ev, m))
    if info['exc'] and info['exc'].startswith('unexpected:'):
        return Failure('unexpected-exception:%s:%s' % (part['act'], info['exc'][11:]), lambda: 'do() raised %s; trace=%r' % (info.get('exc_text'), [(m, e) for (m, e, t) in tr]))
    # self-removed doer keeps running until it returns: its lifecycle is still well formed
    return None


def harness_hist(sym, part):
    w, info = c01.run(sym, part)
    if part['shape'] == 'alw':
        sym.cover('always-dodoer')
    return oracle_hist(sym, w, info, part)


# ---------------------------------------------------------------------------------------------------
# inductive step

def harness_step(sym, part):
    w = sched.World()
    names = ['a', 'b', 'c', 'd'] if part['nargs'] < 2 else ['a', 'b', 'c']
    kinds = {'a': 'plain', 'b': 'gen', 'c': 'func', 'd': 'meth', 'x': 'plain', 'y': 'func'}
    scripts = {n: sched.Script(n, fin=9) for n in names + ['x', 'y']}
    ds = {n: sched.make(kinds[n], w, scripts[n]) for n in names + ['x', 'y']}
    if part['host'] == 'doist':
        host = doing.Doist(tock=1.0, real=False)
    else:
        host = doing.DoDoer(always=True)
        host.wind(doing.Doist(tock=1.0).tymen())
    member = [sym.cbool('member_' + n) for n in names]
    doers = [ds[n] for n, m in zip(names, member) if m]
    host.doers = list(doers)
    deeds = host.enter(doers=doers) if doers else deque()
    kept = []
    for (dog, rt, dr) in list(deeds):
        if sym.cbool('alive_' + w.name_of(dr)):
            kept.append((dog, rt, dr))
        else:
            dog.close()
    has_marker = sym.cbool('marker')
    if has_marker:
        mp = sym.cint('marker_pos', 0, len(kept))
        kept.insert(mp, (None, None, None))
        if 0 < mp < len(kept) - 1:
            sym.cover('step-marker-mid-deque')
    rot = sym.cint('rot', 0, max(len(kept) - 1, 0))
    kept = kept[rot:] + kept[:rot]
    host.deeds = deque(kept)
    del w.trace[:]
    before_doers = list(host.doers)
    before_deeds = list(host.deeds)
    pool = names + (['x', 'y'] if part['nargs'] < 3 else ['x'])
    args = [ds[sym.choice('arg%d' % i, pool)] for i in range(part['nargs'])]
    argn = [w.name_of(a) for a in args]
    if part['op'] == 'remove':
        try:
            host.remove(args)
        except Exception as ex:
            return Failure('step:remove-raises:%s' % type(ex).__name__, lambda ex=ex: 'remove(%r) with .doers %r raised %r' % (argn, [w.name_of(d) for d in before_doers], ex))
        exp_doers = [d for d in before_doers if d not in args]
        if host.doers != exp_doers:
            return Failure('step:remove:doers-list', lambda: 'remove(%r): doers %r expected %r' % (argn, [w.name_of(d) for d in host.doers], [w.name_of(d) for d in exp_doers]))
        left = [dr for (dog, rt, dr) in host.deeds if dog]
        exp_left = [dr for (dog, rt, dr) in before_deeds if dog and not (dr in args and dr in before_doers)]
        if left != exp_left:
            return Failure('step:remove:surviving-deeds-order', lambda: 'remove(%r): deeds %r expected %r' % (argn, [w.name_of(d) for d in left], [w.name_of(d) for d in exp_left]))
        for (dog, rt, dr) in before_deeds:
            if dog and dr in args and dr in before_doers and dog.gi_frame is not None:
                return Failure('step:remove:not-closed', lambda dr=dr: 'removed %s not closed' % w.name_of(dr))
            if dog and not (dr in args and dr in before_doers) and dog.gi_frame is None:
                return Failure('step:remove:bystander-closed', lambda dr=dr: 'bystander %s closed' % w.name_of(dr))
    else:
        try:
            host.extend(args)
        except Exception as ex:
            return Failure('step:extend-raises:%s' % type(ex).__name__, lambda ex=ex: 'extend(%r) raised %r' % (argn, ex))
        new = []
        for d in args:
            if d not in before_doers and d not in new:
                new.append(d)
        if host.doers != before_doers + new:
            return Failure('step:extend:doers-list', lambda: 'extend(%r): doers %r expected %r' % (argn, [w.name_of(d) for d in host.doers], [w.name_of(d) for d in before_doers + new]))
        added = [dr for (dog, rt, dr) in list(host.deeds)[len(before_deeds):]]
        if added != new or list(host.deeds)[:len(before_deeds)] != before_deeds:
            return Failure('step:extend:new-deeds', lambda: 'extend(%r): new deeds %r expected %r' % (argn, [w.name_of(d) for d in added], [w.name_of(d) for d in new]))
        entered = [n for (n, e, t) in w.trace if e == 'enter']
        if entered != [w.name_of(d) for d in new]:
            return Failure('step:extend:enter-events', lambda: 'extend(%r) with doers %r entered %r' % (argn, [w.name_of(d) for d in before_doers], entered))
    if sum(1 for d in host.deeds if not d[0]) != (1 if has_marker else 0):
        return Failure('step:marker-multiplicity', lambda: 'marker count changed')
    # tags shared with the history form
    if part['op'] == 'extend':
        if len(set(argn)) < len(argn):
            sym.cover('extend-duplicate-args')
    elif len(set(argn)) < len(argn):
        sym.cover('remove-duplicate-args')
    for (dog, rt, dr) in host.deeds:      # tidy: close what is still open
        if dog:
            dog.close()
    return None


def harness(sym, part):
    if part['form'] == 'hist':
        return harness_hist(sym, part)
    return harness_step(sym, part)


MUTANTS = [
    ('remove-drops-marker', 'hio/base/doing.py',
     "                deeds.append((dog, retyme, doer))\n                marked = True\n            elif doer in rdoers:  # found deed to remove and close\n                if marked:  # already ran this cycle so earlier in cycle order\n                    edeeds.append((dog, retyme, doer))\n                else:\n                    rdeeds.append((dog, retyme, doer))  # add to removal deque\n            else:  # keep deed do not remove and close\n                deeds.append((dog, retyme, doer))  # reappend\n        edeeds.extend(rdeeds)  # cycle order so exits are in reverse enter order\n        rdeeds = edeeds\n\n        for doer in rdoers:  # update .doers to remove rdoers\n            self.doers.remove(doer)\n\n        self.exit(deeds=rdeeds)\n\n\ndef doify",
     "                marked = True\n            elif doer in rdoers:  # found deed to remove and close\n                if marked:  # already ran this cycle so earlier in cycle order\n                    edeeds.append((dog, retyme, doer))\n                else:\n                    rdeeds.append((dog, retyme, doer))  # add to removal deque\n            else:  # keep deed do not remove and close\n                deeds.append((dog, retyme, doer))  # reappend\n        edeeds.extend(rdeeds)  # cycle order so exits are in reverse enter order\n        rdeeds = edeeds\n\n        for doer in rdoers:  # update .doers to remove rdoers\n            self.doers.remove(doer)\n\n        self.exit(deeds=rdeeds)\n\n\ndef doify"),
]
