"""C10 — connection-level socket faults never escape servicing"""
import errno
import ssl

from vf.engine.base import Failure
from vf.stubs import fakenet
from hio.core.tcp import clienting, serving

ID = 'C10'
EXPLANATION = ("Real tcp Server/ServerTls with two accepted connections A and B, and real Client/ClientTls, over FakeNet. A connection-level "
               "fault is injected at the k-th send or recv (k solver-chosen) of connection A, or at a TLS handshake step: the errno is "
               "solver-chosen from the property's set {ECONNRESET, EPIPE, ENETRESET, ENETUNREACH, EHOSTUNREACH, ENETDOWN, EHOSTDOWN, "
               "ETIMEDOUT, ECONNREFUSED} and realised before the OSError is built (Python maps the errno to its subclass, e.g. "
               "BrokenPipeError, at construction, which hio relies on), every value being explored through the path tree; TLS EOF (SSLEOFError / SSL_ERROR_EOF), SSLError and ECONNABORTED during handshakes and a "
               "peer close (recv -> b'') are driver cases; a further form resets A while its last bytes are still readable (recv returns "
               "them, the descriptor already reports ENOTCONN, the next recv reports ECONNRESET), with and without a wire log attached; and a form in which a client resets before its accepted socket is serviced (accept() hands out a socket that is not connected any more). After the fault the kernel reports the descriptor as not connected (getpeername "
               "raises ENOTCONN, as after a real reset). Oracle: service() returns normally; A is marked cutoff (aborted for a handshake "
               "in progress); bytes queued for B are delivered and B's incoming bytes received in the same and the next service call.")
FUNCTIONS = [('hio.core.tcp.clienting', 'Client.service'), ('hio.core.tcp.clienting', 'Client.send'), ('hio.core.tcp.clienting', 'Client.receive'),
             ('hio.core.tcp.clienting', 'ClientTls.send'), ('hio.core.tcp.clienting', 'ClientTls.receive'), ('hio.core.tcp.clienting', 'ClientTls.handshake'),
             ('hio.core.tcp.clienting', 'ClientTls.connect'), ('hio.core.tcp.serving', 'Server.service'), ('hio.core.tcp.serving', 'Server.serviceReceivesAllIx'),
             ('hio.core.tcp.serving', 'Server.serviceSendsAllIx'), ('hio.core.tcp.serving', 'Server.serviceReceivesIx'), ('hio.core.tcp.serving', 'Remoter.send'),
             ('hio.core.tcp.serving', 'Remoter.receive'), ('hio.core.tcp.serving', 'RemoterTls.send'), ('hio.core.tcp.serving', 'RemoterTls.receive'),
             ('hio.core.tcp.serving', 'RemoterTls.handshake'), ('hio.core.tcp.serving', 'ServerTls.serviceCxes')]
BOUNDS = {'quick': dict(calls=2, budget_s=120, audit_max=6), 'thorough': dict(calls=6, budget_s=600, audit_max=20)}
OUTSIDE = ['errnos outside the property set (they are meant to be re-raised)', 'real kernel RST timing / real OpenSSL', 'more than one fault per run', 'faults raised by accept() itself on the listen socket']
STUBS = ['FakeNet sockets with a fault-injecting send/recv policy; FakeCtx/FakeTLSSock handshake scripts; after a fault the descriptor reports ENOTCONN on getpeername']
ASSUMPTIONS = ['an OSError raised by the kernel carries the errno as args[0] and .errno; SSLEOFError carries SSL_ERROR_EOF (8) there']
REQUIRED_TAGS = ['reset-before-accept-serviced', 'reset-with-data-readable', 'wirelog-attached', 'fault-on-send', 'fault-on-recv', 'peer-close', 'tls-eof-data', 'tls-handshake-eof', 'tls-handshake-aborted', 'sibling-has-traffic', 'second-call-faults']
SOLVER_ROLE = 'enumeration of the finite fault set, call positions and handshake scripts through the solver-maintained path tree'
RULE = 'tags: where the fault hits (send / recv / handshake / data-phase TLS EOF / peer close) and that the sibling connection has traffic'
ERRNOS = [errno.ECONNRESET, errno.EPIPE, errno.ENETRESET, errno.ENETUNREACH, errno.EHOSTUNREACH, errno.ENETDOWN, errno.EHOSTDOWN, errno.ETIMEDOUT, errno.ECONNREFUSED]
NAMES = {e: errno.errorcode[e] for e in ERRNOS}


def partitions(tier):
    b = BOUNDS[tier]
    ps = []
    for cls in ('Server', 'ServerTls', 'Client', 'ClientTls'):
        for where in ('send', 'recv'):
            ps.append(dict(name='%s-%s-errno' % (cls, where), cls=cls, where=where, fault='errno', calls=b['calls']))
        ps.append(dict(name='%s-peer-close' % cls, cls=cls, where='recv', fault='close', calls=b['calls']))
        if cls.endswith('Tls'):
            for where in ('send', 'recv'):
                ps.append(dict(name='%s-%s-tlseof' % (cls, where), cls=cls, where=where, fault='tlseof', calls=b['calls']))
            for hs in (('eof', 'sslerror', 'aborted', 'errno') if cls == 'ServerTls' else ('eof', 'aborted', 'errno')):   # a generic SSLError (e.g. certificate verification) on the client is outside the property's fault set
                ps.append(dict(name='%s-handshake-%s' % (cls, hs), cls=cls, where='handshake', fault=hs, calls=b['calls']))
    for cls in ('Server', 'ServerTls'):
        for where in ('send', 'recv'):
            ps.append(dict(name='%s-%s-reset-with-data' % (cls, where), cls=cls, where=where, fault='resetdata', calls=b['calls']))
        ps.append(dict(name='%s-reset-before-accept' % cls, cls=cls, where='accept', fault='acceptdead', calls=b['calls']))
    return ps


def make_fault(sym, part):
    f = part['fault']
    if f == 'errno':
        e = sym.choice('errno', ERRNOS)       # concrete: OSError(errno, ...) maps the errno to its subclass (BrokenPipeError, ...) in C
        return OSError(e, 'injected'), e
    if f == 'tlseof':
        return ssl.SSLEOFError(ssl.SSL_ERROR_EOF, 'EOF occurred in violation of protocol'), 'SSLEOF'
    raise ValueError(f)


def exc_text(sym, ex):
    return '%s(%s)' % (type(ex).__name__, ', '.join(repr(sym.realize(a)) for a in ex.args))


def errname(sym, e):
    if isinstance(e, str):
        return e
    v = sym.realize(e)
    return NAMES.get(v, str(v))


def arm(sym, part, sock, exc):
    """the k-th send/recv on `sock` raises exc; afterwards the descriptor is dead"""
    k = sym.cint('fault_call', 1, part['calls'])
    if k > 1:
        sym.cover('second-call-faults')
    s0, r0 = sock.sends, sock.recvs
    if part['where'] == 'send':
        sym.cover('fault-on-send')

        def on_send(s, data):
            if s.sends - s0 == k:
                s.dead = True
                raise exc
            return 1               # partial acceptance keeps the queue non-empty so that the k-th send happens
        sock.on_send = on_send
    else:
        sym.cover('fault-on-recv' if part['fault'] != 'close' else 'peer-close')
        for j in range(k):        # enough incoming chunks for k recv calls
            sock.inq.append(b'x%d' % j)

        def on_recv(s, n):
            if s.recvs - r0 == k:
                if part['fault'] == 'close':
                    return b''
                s.dead = True
                raise exc
            return None
        sock.on_recv = on_recv
    sock.fault_fired = lambda: (sock.sends - s0 >= k) if part['where'] == 'send' else (sock.recvs - r0 >= k)
    return k


def harness_server(sym, part):
    net = fakenet.FakeNet()
    tls = part['cls'] == 'ServerTls'
    with fakenet.Patch(net, serving):
        if tls:
            scripts = None
            if part['where'] == 'handshake':
                step = {'eof': 'eof', 'sslerror': 'sslerror', 'aborted': errno.ECONNABORTED}.get(part['fault'])
                if part['fault'] == 'errno':
                    e = sym.choice('errno', ERRNOS)
                    step = OSError(e, 'injected')
                pre = ['want-read'] * sym.cint('hs_wait', 0, 1)
                scripts = [pre + [step], ['ok']]
            srv = serving.ServerTls(ha=('127.0.0.1', 6101), context=fakenet.FakeCtx(script=['ok'], scripts=scripts))
        else:
            srv = serving.Server(ha=('127.0.0.1', 6101))
        assert srv.reopen()
        listen = srv.ss
        a = net.incoming(listen, ('10.0.0.1', 4001))
        b = net.incoming(listen, ('10.0.0.2', 4002))
        exc = None
        what = part['fault']
        try:
            srv.service()          # accepts (and for TLS handshakes)
            if part['where'] == 'handshake':
                srv.service()
                sym.cover('tls-handshake-eof' if part['fault'] == 'eof' else 'tls-handshake-aborted')
                ixa = srv.ixes.get(('10.0.0.1', 4001))
                if ixa is not None:
                    return Failure('ServerTls:handshake-%s:failed-connection-served' % part['fault'], 'connection whose handshake failed is in .ixes')
            else:
                ixa = srv.ixes[('10.0.0.1', 4001)]
                exc, e = (None, 'close') if part['fault'] == 'close' else make_fault(sym, part)
                what = e
                if part['fault'] == 'tlseof':
                    sym.cover('tls-eof-data')
                arm(sym, part, ixa.cs, exc)
                ixa.tx(b'to-A-0123456789')
            ixb = srv.ixes.get(('10.0.0.2', 4002))
            if ixb is None:
                return Failure('%s:%s:sibling-not-accepted' % (part['cls'], part['where']), 'healthy connection B never reached .ixes')
            ixb.tx(b'to-B')
            ixb.cs.inq.append(b'from-B')
            sym.cover('sibling-has-traffic')
            for _ in range(part['calls'] + 1):
                srv.service()
        except Exception as ex:
            from vf.engine.symx_guard import guard
            guard(ex)
            return Failure('%s:%s:%s:escapes-service' % (part['cls'], part['where'], errname(sym, what)),
                           lambda ex=ex: '%s raised out of %s.service(): %s' % (type(ex).__name__, part['cls'], exc_text(sym, ex)))
        if part['where'] != 'handshake':
            if not ixa.cs is None and hasattr(ixa.cs, 'fault_fired') and not ixa.cs.fault_fired():
                return Failure('harness:fault-never-fired', 'the armed fault did not fire')
            if not ixa.cutoff:
                return Failure('%s:%s:%s:not-cutoff' % (part['cls'], part['where'], errname(sym, what)), 'faulted connection not marked cutoff')
        if bytes(ixb.cs.wire) != b'to-B' or bytes(ixb.rxbs) != b'from-B':
            return Failure('%s:%s:%s:sibling-starved' % (part['cls'], part['where'], errname(sym, what)),
                           lambda: 'sibling B: peer got %r, server received %r' % (bytes(ixb.cs.wire), bytes(ixb.rxbs)))
    return None


class NullWL:
    """wire log collaborator: only the calls matter (who= is evaluated by the code under test)"""
    def __init__(self):
        self.rx, self.tx = b'', b''

    def writeRx(self, data, who=b''):
        self.rx += bytes(data)

    def writeTx(self, data, who=b''):
        self.tx += bytes(data)


def harness_server_reset_with_data(sym, part):
    """the peer of A sends its last bytes and resets: the kernel still hands the queued bytes to recv() (and may have accepted a
    send()) but the descriptor is no longer connected (getpeername -> ENOTCONN); the following recv reports ECONNRESET. A wire log
    is attached (solver-chosen), because logging code asks the socket for its peer"""
    net = fakenet.FakeNet()
    tls = part['cls'] == 'ServerTls'
    with fakenet.Patch(net, serving):
        wl = NullWL() if sym.cbool('wirelog') else None
        if wl is not None:
            sym.cover('wirelog-attached')
        if tls:
            srv = serving.ServerTls(ha=('127.0.0.1', 6101), context=fakenet.FakeCtx(script=['ok']), wl=wl)
        else:
            srv = serving.Server(ha=('127.0.0.1', 6101), wl=wl)
        assert srv.reopen()
        a = net.incoming(srv.ss, ('10.0.0.1', 4001))
        b = net.incoming(srv.ss, ('10.0.0.2', 4002))
        where = part['where']
        try:
            srv.service()
            if tls:
                srv.service()
            ixa = srv.ixes.get(('10.0.0.1', 4001))
            ixb = srv.ixes.get(('10.0.0.2', 4002))
            if ixa is None or ixb is None:
                return Failure('harness:not-accepted', 'connections not accepted')
            sk = ixa.cs
            k = sym.cint('data_chunks', 1, 2)
            for j in range(k):
                sk.inq.append(b'last%d' % j)
            sk.inq.append(('err', ConnectionResetError(errno.ECONNRESET, 'reset')))
            sk.dead = True                      # from now on: not connected
            sym.cover('reset-with-data-readable')
            if where == 'send':                 # the reset lands just after the kernel accepted a send
                ixa.tx(b'to-A')
                sk.on_send = lambda s_, data: len(data)
                sym.cover('fault-on-send')
            else:
                sym.cover('fault-on-recv')
            ixb.tx(b'to-B')
            ixb.cs.inq.append(b'from-B')
            sym.cover('sibling-has-traffic')
            for _ in range(k + 2):
                srv.service()
        except Exception as ex:
            from vf.engine.symx_guard import guard
            guard(ex)
            return Failure('%s:%s:reset-with-data%s:escapes-service' % (part['cls'], where, ':wirelog' if wl is not None else ''),
                           lambda ex=ex: '%s raised out of %s.service(): %s' % (type(ex).__name__, part['cls'], exc_text(sym, ex)))
        tag = '%s:%s:reset-with-data%s' % (part['cls'], where, ':wirelog' if wl is not None else '')
        if not ixa.cutoff:
            return Failure(tag + ':not-cutoff', 'reset connection not marked cutoff (still in .ixes: %r)' % (('10.0.0.1', 4001) in srv.ixes,))
        if bytes(ixb.cs.wire) != b'to-B' or bytes(ixb.rxbs) != b'from-B':
            return Failure(tag + ':sibling-starved', lambda: 'sibling B: peer got %r, server received %r' % (bytes(ixb.cs.wire), bytes(ixb.rxbs)))
    return None


def harness_server_accept_dead(sym, part):
    """a client connects and resets at once: accept() still hands the socket out (Linux), but it is not connected any more
    (getpeername -> ENOTCONN, confirmed on the real kernel); a healthy connection B arrives before or after it"""
    net = fakenet.FakeNet()
    tls = part['cls'] == 'ServerTls'
    with fakenet.Patch(net, serving):
        srv = serving.ServerTls(ha=('127.0.0.1', 6101), context=fakenet.FakeCtx(script=['ok'])) if tls else serving.Server(ha=('127.0.0.1', 6101))
        assert srv.reopen()
        b_first = sym.cbool('healthy_first')
        if b_first:
            b = net.incoming(srv.ss, ('10.0.0.2', 4002))
        a = net.incoming(srv.ss, ('10.0.0.1', 4001))
        a.dead = True
        a.inq.append(('err', ConnectionResetError(errno.ECONNRESET, 'reset')))
        if not b_first:
            b = net.incoming(srv.ss, ('10.0.0.2', 4002))
        sym.cover('reset-before-accept-serviced')
        sym.cover('sibling-has-traffic')
        try:
            srv.service()
            if tls:
                srv.service()
            ixb = srv.ixes.get(('10.0.0.2', 4002))
            if ixb is None:
                return Failure('%s:accept:reset-before-accept:sibling-not-accepted' % part['cls'], 'healthy connection B never reached .ixes')
            ixb.tx(b'to-B')
            ixb.cs.inq.append(b'from-B')
            for _ in range(3):
                srv.service()
        except Exception as ex:
            from vf.engine.symx_guard import guard
            guard(ex)
            return Failure('%s:accept:reset-before-accept:escapes-service' % part['cls'],
                           lambda ex=ex: '%s raised out of %s.service(): %s' % (type(ex).__name__, part['cls'], exc_text(sym, ex)))
        ixa = srv.ixes.get(('10.0.0.1', 4001))
        if ixa is not None and not ixa.cutoff:
            return Failure('%s:accept:reset-before-accept:not-cutoff' % part['cls'], 'the reset connection is served and not marked cutoff')
        if bytes(ixb.cs.wire) != b'to-B' or bytes(ixb.rxbs) != b'from-B':
            return Failure('%s:accept:reset-before-accept:sibling-starved' % part['cls'], lambda: 'sibling B: peer got %r, server received %r' % (bytes(ixb.cs.wire), bytes(ixb.rxbs)))
        srv.close()
        if not a.closed:
            return Failure('%s:accept:reset-before-accept:socket-left-open' % part['cls'], 'the accepted, already reset socket is still open after Server.close()')
    return None


def harness_client(sym, part):
    net = fakenet.FakeNet()
    tls = part['cls'] == 'ClientTls'
    with fakenet.Patch(net, clienting):
        what = part['fault']
        try:
            if tls:
                script = ['ok']
                if part['where'] == 'handshake':
                    step = {'eof': 'eof', 'sslerror': 'sslerror', 'aborted': errno.ECONNABORTED}.get(part['fault'])
                    if part['fault'] == 'errno':
                        e = sym.int('errno', 1, 200)
                        sym.constrain_any([e == x for x in ERRNOS])
                        step = OSError(e, 'injected')
                    script = ['want-read'] * sym.cint('hs_wait', 0, 1) + [step]
                cl = clienting.ClientTls(ha=('127.0.0.1', 6101), context=fakenet.FakeCtx(script=script), hostify=False)
            else:
                cl = clienting.Client(ha=('127.0.0.1', 6101))
            cl.reopen()
            cl.service()         # connect (+ first handshake step)
            if part['where'] == 'handshake':
                cl.service()
                cl.service()
                sym.cover('tls-handshake-eof' if part['fault'] == 'eof' else 'tls-handshake-aborted')
                sym.cover('sibling-has-traffic')      # not applicable to a client: vacuity guard only
                if cl.connected:
                    return Failure('ClientTls:handshake-%s:connected-after-failed-handshake' % part['fault'], 'client reports connected')
                return None
            if not cl.connected:
                return Failure('%s:%s:never-connected' % (part['cls'], part['where']), 'client did not connect over FakeNet')
            exc, e = (None, 'close') if part['fault'] == 'close' else make_fault(sym, part)
            what = e
            if part['fault'] == 'tlseof':
                sym.cover('tls-eof-data')
            arm(sym, part, cl.cs, exc)
            cl.tx(b'request-0123456789')
            sym.cover('sibling-has-traffic')
            for _ in range(part['calls'] + 1):
                cl.service()
        except Exception as ex:
            from vf.engine.symx_guard import guard
            guard(ex)
            return Failure('%s:%s:%s:escapes-service' % (part['cls'], part['where'], errname(sym, what)),
                           lambda ex=ex: '%s raised out of %s.service(): %s' % (type(ex).__name__, part['cls'], exc_text(sym, ex)))
        if not cl.cutoff:
            return Failure('%s:%s:%s:not-cutoff' % (part['cls'], part['where'], errname(sym, what)), 'faulted connection not marked cutoff')
    return None


def harness(sym, part):
    if part['fault'] == 'acceptdead':
        return harness_server_accept_dead(sym, part)
    if part['fault'] == 'resetdata':
        return harness_server_reset_with_data(sym, part)
    if part['cls'].startswith('Server'):
        return harness_server(sym, part)
    return harness_client(sym, part)


MUTANTS = [
    ('remoter-recv-drops-ehostdown', 'hio/core/tcp/serving.py',
     "                                errno.ENETDOWN,\n                                errno.EHOSTDOWN,\n                                errno.ETIMEDOUT,\n                                errno.ECONNREFUSED):\n                self.cutoff = True  # this signals need to close/reopen connection\n                return bytes()  # data empty\n            else:  # unexpected error",
     "                                errno.ENETDOWN,\n                                errno.ETIMEDOUT,\n                                errno.ECONNREFUSED):\n                self.cutoff = True  # this signals need to close/reopen connection\n                return bytes()  # data empty\n            else:  # unexpected error"),
    ('remotertls-wirelog-asks-socket-for-peer', 'hio/core/tcp/serving.py',
     "                self.wl.writeRx(data, who=self.ca)", "                self.wl.writeRx(data, who=self.cs.getpeername())"),
]
