"""C19 — client requests are sent one at a time and answered in FIFO order"""
from vf.engine.base import Failure
from vf.stubs import fakenet
from hio.base import tyming
from hio.core import http, coring
from hio.core.http import clienting as hclienting
from hio.core.tcp import clienting as tclienting

ID = 'C19'
EXPLANATION = ("Real http.Client (request/serviceRequests/transmit/serviceResponse/redirect/service) with its tcp connector on FakeNet against a "
               "scripted peer that parses what it receives, flags any request that arrives while an earlier response is still outstanding, "
               "and answers each complete request after a solver-chosen number of service rounds with: a plain 200, a 30x redirect to "
               "the same authority (absolute or relative Location), a redirect to a different authority, or - for a https client - a "
               "redirect to http. Queues of 1-3 requests with solver-chosen methods (GET/POST/PUT/HEAD) and body kinds (none, raw body, "
               "JSON data, form fields). Oracle: one request on the wire at a time, in queue order, each with its own method, path and "
               "payload; one response entry per request in the same order, carrying its originating request and its own body (also "
               "after later responses were parsed); redirects followed with the history attached; https->http refused with nothing "
               "sent to the http target.")
FUNCTIONS = [('hio.core.http.clienting', 'Client.request'), ('hio.core.http.clienting', 'Client.serviceRequests'), ('hio.core.http.clienting', 'Client.transmit'),
             ('hio.core.http.clienting', 'Client.serviceResponse'), ('hio.core.http.clienting', 'Client.redirect'), ('hio.core.http.clienting', 'Client.service'),
             ('hio.core.http.clienting', 'Requester.rebuild'), ('hio.core.http.clienting', 'Requester.reinit'), ('hio.core.http.clienting', 'Respondent.reinit')]
BOUNDS = {'quick': dict(requests=2, budget_s=150, audit_max=8), 'thorough': dict(requests=3, budget_s=1500, audit_max=20, third_request='behaviour ok / relative redirect, payload none / body, no delay; delays 0 or 2 on the first two')}
OUTSIDE = ['TLS internals', 'timeouts / reconnects / a server closing the connection', 'more than `requests` queued requests', 'server-sent-event responses']
STUBS = ['FakeNet with a scripted HTTP peer; FakeCtx for the https client; name resolution stubbed']
ASSUMPTIONS = ['the peer answers HEAD with the Content-Length of the corresponding GET and no body']
_T = ['delayed-response', 'redirect-same-authority', 'redirect-relative', 'redirect-other-authority', 'https-to-http', 'https-to-http-same-host-and-port', 'head-request', 'json-then-raw']
REQUIRED_TAGS = {'quick': _T, 'thorough': _T + ['three-in-queue']}
RULE = 'tags: delayed responses, the redirect kinds, HEAD framing, payload kinds changing between queued requests'
METHODS = ['GET', 'POST', 'PUT', 'HEAD']
PAYLOADS = ['none', 'body', 'data', 'fargs']
BEHAVE = ['ok', 'redir-abs', 'redir-rel', 'redir-other']


def partitions(tier):
    b = BOUNDS[tier]
    ps = []
    for n in range(1, b['requests'] + 1):
        for m0 in METHODS:
            for b0 in BEHAVE:
                ps.append(dict(name='n%d-%s-%s' % (n, m0, b0), n=n, m0=m0, b0=b0, secure=False))
    ps.append(dict(name='https-to-http', n=1, m0='GET', b0='redir-insecure', secure=True))
    for v in ('same', 'noport', 'host'):      # the refusal must not depend on where the http target lives
        ps.append(dict(name='https-to-http-%s' % v, n=1, m0='GET', b0='redir-insecure-' + v, secure=True))
    return ps


class Peer:
    """scripted HTTP/1.1 server behind one FakeSock"""
    def __init__(self, sock, name, plan, log):
        self.sock, self.name, self.plan, self.log = sock, name, plan, log
        self.buf = b''
        self.pending = []
        sock.on_send = self.on_send

    def on_send(self, s, data):
        self.buf += bytes(data)
        while b'\r\n\r\n' in self.buf:
            head, _, rest = self.buf.partition(b'\r\n\r\n')
            n = 0
            lines = head.split(b'\r\n')
            for ln in lines[1:]:
                if ln.lower().startswith(b'content-length:'):
                    n = int(ln.split(b':')[1])
            if len(rest) < n:
                break
            self.buf = rest[n:]
            body = rest[:n]
            ctype = b''
            for ln in lines[1:]:
                if ln.lower().startswith(b'content-type:'):
                    ctype = ln.split(b':', 1)[1].strip()
            if self.pending:
                self.log['violation'] = 'request %r put on the wire while the response to %r was still outstanding' % (lines[0], self.pending[0][1])
            self.log['seen'].append((self.name, lines[0], body, ctype))
            self.pending.append([self.plan.delay(lines[0]), lines[0]])
        return len(data)

    def tick(self):
        for p in list(self.pending):
            if p[0] > 0:
                p[0] -= 1
                continue
            self.pending.remove(p)
            line = p[1]
            method, target = line.split(b' ')[0], line.split(b' ')[1]
            act = self.plan.behave(target)
            body = b're:' + target
            if act == 'ok':
                head = b'HTTP/1.1 200 OK\r\nContent-Length: %d\r\n\r\n' % len(body)
                self.sock.inq.append(head + (b'' if method == b'HEAD' else body))
            else:
                loc = {'redir-abs': b'http://127.0.0.1:8080/moved' + target, 'redir-rel': b'/moved' + target,
                       'redir-other': b'http://127.0.0.2:8081/moved' + target, 'redir-insecure': b'http://127.0.0.1:8080/moved' + target,
                       'redir-insecure-same': b'http://127.0.0.1:8443/moved' + target,       # only the scheme is downgraded: same host, same port
                       'redir-insecure-noport': b'http://127.0.0.1/moved' + target,
                       'redir-insecure-host': b'http://127.0.0.2:8443/moved' + target}[act]
                self.sock.inq.append(b'HTTP/1.1 302 Found\r\nLocation: ' + loc + b'\r\nContent-Length: 0\r\n\r\n')


class Plan:
    def __init__(self, specs):
        self.specs = specs

    def spec(self, target):
        t = target.split(b'?')[0]
        if t.startswith(b'/moved'):
            return None
        return self.specs[int(t[2:])]

    def delay(self, line):
        sp = self.spec(line.split(b' ')[1])
        return sp['delay'] if sp else 0

    def behave(self, target):
        sp = self.spec(target)
        return sp['behave'] if sp else 'ok'


def run(sym, part, specs):
    net = fakenet.FakeNet()
    saved = (hclienting.logger,)
    hclienting.logger = fakenet.NullLogger()
    log = dict(seen=[], violation=None)
    plan = Plan(specs)
    peers = []
    try:
        with fakenet.Patch(net, tclienting, coring):
            tymist = tyming.Tymist()

            def on_socket(s):
                peers.append(Peer(s, 'sock%d' % len(peers), plan, log))
            net.on_socket = on_socket
            if part['secure']:
                cl = http.Client(hostname='127.0.0.1', port=8443, scheme='https', context=fakenet.FakeCtx(script=['ok']), tymth=tymist.tymen())
            else:
                cl = http.Client(hostname='127.0.0.1', port=8080, tymth=tymist.tymen())
            cl.connector.reopen()
            for i, sp in enumerate(specs):
                kw = dict(method=sp['method'], path='/r%d' % i)
                if sp['payload'] == 'body':
                    kw['body'] = b'raw%d' % i
                elif sp['payload'] == 'data':
                    kw['data'] = {'n': i}
                elif sp['payload'] == 'fargs':
                    kw['fargs'] = {'f': 'v%d' % i}
                cl.request(**kw)
            raised = None
            try:
                for _ in range(10 * len(specs) + 6):
                    cl.service()
                    for p in list(peers):
                        p.tick()
                    tymist.tick()
            except Exception as ex:     # noqa
                raised = ex
            if part['secure']:
                # https -> http must be refused: nothing may reach a plain-http target
                plain = [x for x in log['seen'] if x[1].split(b' ')[1].startswith(b'/moved')]
                if plain:
                    return Failure('redirect:https-to-http-followed', 'request %r sent after a redirect from https to http' % (plain[0][1],))
                if not isinstance(raised, ValueError) and not (cl.responses and cl.responses[-1].get('errored')):
                    return Failure('redirect:https-to-http-not-refused', 'redirect to http neither raised the documented ValueError nor produced an errored response (raised %r)' % (raised,))
                return None
            if raised is not None:
                kinds = sorted(set(sp['behave'] for sp in specs))
                return Failure('service-raises:%s:%s' % (type(raised).__name__, '+'.join(kinds)), 'Client.service() raised %r with server behaviours %r' % (raised, kinds))
            if log['violation']:
                return Failure('wire:request-sent-before-previous-response', log['violation'])
            # requests on the wire: originals in order, each followed by its redirect target if any
            firsts = [x for x in log['seen'] if not x[1].split(b' ')[1].startswith(b'/moved')]
            if [x[1].split(b' ')[1] for x in firsts] != [b'/r%d' % i for i in range(len(specs))]:
                return Failure('wire:order', 'requests on the wire %r' % ([x[1] for x in log['seen']],))
            for i, (x, sp) in enumerate(zip(firsts, specs)):
                if x[1].split(b' ')[0] != sp['method'].encode():
                    return Failure('wire:method', 'request %d sent as %r, queued as %s' % (i, x[1], sp['method']))
                exp = {'none': b'', 'body': b'raw%d' % i, 'data': b'{"n":%d}' % i, 'fargs': b'f=v%d' % i}[sp['payload']]
                got = x[2].replace(b' ', b'').replace(b'\n', b'')
                if sp['method'] in ('GET', 'HEAD'):
                    continue      # payload handling of bodiless methods is not part of this property
                if got != exp:
                    return Failure('wire:payload-of-another-request', 'request %d (%s %s) carried body %r expected %r' % (i, sp['method'], sp['payload'], x[2], exp))
            if len(cl.responses) != len(specs):
                return Failure('responses:count', '%d responses for %d requests; wire %r' % (len(cl.responses), len(specs), [x[1] for x in log['seen']]))
            for i, (rsp, sp) in enumerate(zip(cl.responses, specs)):
                rq = rsp['request']
                hops = 0 if sp['behave'] == 'ok' else 1
                if len(rsp.get('redirects', [])) != hops:
                    return Failure('redirect:history', 'response %d has %d redirect entries expected %d' % (i, len(rsp.get('redirects', [])), hops))
                if rsp['status'] != 200:
                    return Failure('responses:status', 'response %d status %r' % (i, rsp['status']))
                want_path = '/r%d' % i if hops == 0 else None
                if rq.get('method') != sp['method'] or (want_path and rq.get('path') != want_path):
                    return Failure('responses:originating-request', 'response %d carries request %r %r, queued %s /r%d' % (i, rq.get('method'), rq.get('path'), sp['method'], i))
                target = b'/r%d' % i if hops == 0 else b'/moved/r%d' % i
                want_body = b'' if sp['method'] == 'HEAD' else b're:' + target
                if bytes(rsp['body']) != want_body:
                    return Failure('responses:body-not-its-own', 'response %d body %r expected %r (all bodies %r)' % (i, bytes(rsp['body']), want_body, [bytes(r['body']) for r in cl.responses]))
    finally:
        hclienting.logger = saved[0]
    return None


def harness(sym, part):
    specs = []
    for i in range(part['n']):
        # sequences of three: the first two requests keep (nearly) the full choice, the third a reduced one (stated in BOUNDS)
        three = part['n'] >= 3
        method = part['m0'] if i == 0 else sym.choice('method%d' % i, METHODS)
        behave = part['b0'] if i == 0 else sym.choice('behave%d' % i, BEHAVE if not (three and i == 2) else ['ok', 'redir-rel'])
        payload = sym.choice('payload%d' % i, PAYLOADS if not (three and i == 2) else ['none', 'body'])
        delay = sym.cint('delay%d' % i, 0, 2) if not three else (0 if i == 2 else 2 * sym.cint('delay%d' % i, 0, 1))
        specs.append(dict(method=method, behave=behave, payload=payload, delay=delay))
    for i, sp in enumerate(specs):
        if sp['delay']:
            sym.cover('delayed-response')
        sym.cover({'ok': 'plain', 'redir-abs': 'redirect-same-authority', 'redir-rel': 'redirect-relative', 'redir-other': 'redirect-other-authority',
                   'redir-insecure': 'https-to-http', 'redir-insecure-same': 'https-to-http-same-host-and-port',
                   'redir-insecure-noport': 'https-to-http', 'redir-insecure-host': 'https-to-http'}[sp['behave']])
        if sp['method'] == 'HEAD':
            sym.cover('head-request')
        if i and specs[i - 1]['payload'] == 'data' and sp['payload'] == 'body':
            sym.cover('json-then-raw')
    if len(specs) >= 3:
        sym.cover('three-in-queue')
    return sym.untraced(lambda: run(sym, part, specs))


MUTANTS = [
    ('waited-cleared-early', 'hio/core/http/clienting.py', "        self.waited = True\n\n        reinit = any(", "        self.waited = False\n\n        reinit = any("),
]
