"""C14 — HTTP requests built by the client are recovered exactly by the server"""
import json
from urllib.parse import parse_qsl, unquote
from vf.engine.base import Failure
from hio.core import http
from hio.core.http import clienting, serving, httping

ID = 'C14'
EXPLANATION = ("Real clienting.Requester.build (with httping.updateQargsQuery / packHeader) produces the request bytes; the real "
               "serving.Requestant parses them and the real http.Server.buildEnviron builds the WSGI environment. Finite domain chosen "
               "by the solver and enumerated to exhaustion, ONE DIMENSION AT A TIME around a base request (path | first query pair over the full alphabet | two query pairs | header value | JSON | form | raw body): method from METHODS; 5 paths with spaces, %, +, ~ and non-ASCII segments; "
               "up to 2 query arguments with keys/values over {a, &, =, ;, +, space, %, #, e-acute}; an extra header; body kind raw "
               "(a table of framing-hostile byte strings) | JSON data | form fields; explicit Content-Length or not. Oracle as a "
               "WSGI application sees it: REQUEST_METHOD, unquote(PATH_INFO) == path, parse_qsl(QUERY_STRING) == query arguments, "
               "HTTP_* header values, wsgi.input bytes == body (raw bytes / the JSON text / the form encoding that parse_qsl maps back "
               "to the fields), CONTENT_LENGTH and CONTENT_TYPE consistent.")
FUNCTIONS = [('hio.core.http.clienting', 'Requester.build'), ('hio.core.http.clienting', 'Requester.reinit'), ('hio.core.http.httping', 'updateQargsQuery'),
             ('hio.core.http.httping', 'packHeader'), ('hio.core.http.serving', 'Requestant.parseHead'), ('hio.core.http.serving', 'Requestant.parseBody'),
             ('hio.core.http.serving', 'Server.buildEnviron'), ('hio.core.http.httping', 'parseRequestLine')]
BOUNDS = {'quick': dict(keylen=1, vallen=1, pairs=2, body=2, budget_s=150, audit_max=8), 'thorough': dict(keylen=2, vallen=2, pairs=2, body=3, budget_s=1500, audit_max=20)}
OUTSIDE = ['combinations in which several dimensions leave their base value at once', 'keys/values/paths outside the stated alphabets and lengths', "'?' and '#' inside the path argument (by contract the path argument may carry query and fragment: they are delimiters)",
           'multipart form encoding (random boundary)', 'header values with characters outside printable ASCII', 'duplicate query keys']
STUBS = ['a minimal servant object for Server.buildEnviron (eha) and a remoter stub for Requestant']
ASSUMPTIONS = ['the server side is judged by what a WSGI application sees: urllib.parse.parse_qsl(QUERY_STRING, keep_blank_values=True)']
REQUIRED_TAGS = ['key-with-separator', 'value-with-separator', 'unicode-path', 'space-in-path', 'json-body', 'form-body', 'raw-body', 'explicit-content-length', 'two-query-args', 'get-has-no-body', 'requester-reused']
RULE = 'tags: separators inside keys/values, unicode and spaces in paths, the three body kinds, explicit Content-Length, several query arguments'
PATHS = ['/a', '/b c', '/x%y/p+q', '/café/~t', '/a/b c']
QCH = ['a', '&', '=', ';', '+', ' ', '%', '#', 'é']
METHODS = ['GET', 'POST', 'PUT', 'DELETE']
RAW_BODIES = [b'', b'a', b'\r\n', b'\r\n\r\n', b'0\r\n\r\n', bytes([0, 255, 13]), b'a=b&c', 'é'.encode('utf-8'), b'GET / HTTP/1.1\r\n\r\n', b'x' * 300]
SOLVER_ROLE = 'enumeration of a finite request space through the solver-maintained path tree (choices drawn under the tracer, the concrete request then runs with the tracer off)'


def partitions(tier):
    """one dimension of the request varies exhaustively per partition, the others stay at a base value"""
    b = BOUNDS[tier]
    ps = []
    for m in METHODS:
        ps.append(dict(name='%s-vary-path' % m, method=m, kind='none', vary='path'))
        ps.append(dict(name='%s-vary-query1' % m, method=m, kind='none', vary='query1', keylen=b['keylen'], vallen=b['vallen']))
        ps.append(dict(name='%s-vary-query2' % m, method=m, kind='none', vary='query2'))
        ps.append(dict(name='%s-vary-header' % m, method=m, kind='none', vary='header'))
        if m != 'GET':
            ps.append(dict(name='%s-reuse-requester' % m, method=m, kind='raw', vary='reuse'))
            ps.append(dict(name='%s-vary-json' % m, method=m, kind='json', vary='body'))
            ps.append(dict(name='%s-vary-form' % m, method=m, kind='form', vary='body', vallen=b['vallen']))
            ps.append(dict(name='%s-vary-raw' % m, method=m, kind='raw', vary='body', body=b['body']))
    return ps


def word(sym, name, maxlen, minlen):
    n = sym.cint(name + '_len', minlen, maxlen)
    return ''.join(sym.choice('%s_%d' % (name, i), QCH) for i in range(n))


class Servant:
    eha = ('127.0.0.1', 8080)


class RemoterStub:
    tymeout = 5.0
    ca = ('10.0.0.1', 4001)


class Replayer:
    """feeds the choices recorded by a traced first pass to a second, untraced pass"""
    def __init__(self, rec):
        self.rec = rec
        self.tags = {}

    def cint(self, name, lo, hi): return self.rec[name]
    def cbool(self, name): return self.rec[name]
    def choice(self, name, seq): return self.rec[name]
    def assume(self, c):
        if not c:
            raise Skip()
    def cover(self, t): self.tags[t] = 1
    def realize(self, v): return v
    def bytes(self, name, n, **k): raise RuntimeError('symbolic bytes in an untraced pass')


class Skip(Exception):
    pass


class Chooser:
    """records every solver choice of the first (traced) pass"""
    def __init__(self, sym):
        self.sym, self.rec = sym, {}

    def cint(self, name, lo, hi):
        self.rec[name] = self.sym.cint(name, lo, hi)
        return self.rec[name]

    def cbool(self, name):
        self.rec[name] = self.sym.cbool(name)
        return self.rec[name]

    def choice(self, name, seq):
        self.rec[name] = self.sym.choice(name, seq)
        return self.rec[name]

    def __getattr__(self, k):
        return getattr(self.sym, k)


def harness(sym, part):
    # everything else is a finite choice: draw the choices under the tracer (pass 1 only chooses), then run the
    # real build/parse/environ code on the concrete request with the tracer off
    ch = Chooser(sym)
    try:
        _harness(DryRun(ch), part)
    except _Chosen:
        pass
    rp = Replayer(ch.rec)

    def go():
        try:
            return _harness(rp, part)
        except Skip:
            return 'skip'
    res = sym.untraced(go)
    if res == 'skip':
        sym.assume(False)
    for t in rp.tags:
        sym.cover(t)
    return res


class _Chosen(Exception):
    pass


class DryRun:
    """pass 1: only the draws matter; stop before the code under test runs"""
    def __init__(self, ch):
        self.ch = ch

    def cint(self, *a): return self.ch.cint(*a)
    def cbool(self, *a): return self.ch.cbool(*a)
    def choice(self, *a): return self.ch.choice(*a)
    def assume(self, c):
        if not c:
            self.ch.sym.assume(False)
    def cover(self, t): pass
    def realize(self, v): return v
    def built(self): raise _Chosen()


def _harness(sym, part):
    vary = part['vary']
    path = sym.choice('path', PATHS) if vary == 'path' else '/a'
    qargs = {}
    pairs = []
    if vary == 'query1':
        pairs = [(word(sym, 'k0', part['keylen'], 1), word(sym, 'v0', part['vallen'], 0))]
    elif vary == 'query2':
        pairs = [(sym.choice('k0', ['b', '&', 'é', 'a b']), sym.choice('v0', ['', '=', 'x'])),
                 (sym.choice('k1', ['c', '=', '#', '+']), sym.choice('v1', ['', '&', 'y z']))]
    elif vary in ('body', 'reuse'):
        pairs = [('q', '1')]
    for (k, v) in pairs:
        qargs[k] = v
        if any(c in k for c in '&=;#+ %'):
            sym.cover('key-with-separator')
        if any(c in v for c in '&=;#+ %'):
            sym.cover('value-with-separator')
    if len(qargs) > 1:
        sym.cover('two-query-args')
    if 'é' in path:
        sym.cover('unicode-path')
    if ' ' in path:
        sym.cover('space-in-path')
    hdrs = {'X-Extra': sym.choice('hval', ['v', 'two words', 'a:b', '']) if vary == 'header' else 'v'}
    explicit = sym.cbool('explicit_cl') if part['kind'] == 'raw' else False
    kw = {}
    kind = part['kind']
    exp_body = b''
    if kind == 'raw':
        body = sym.choice('body', RAW_BODIES)
        kw['body'] = body
        exp_body = body
        sym.cover('raw-body')
    elif kind == 'json':
        data = {'n': sym.choice('jn', [0, -1, 10]), 's': sym.choice('js', ['', 'x y', 'é"'])}
        kw['data'] = data
        sym.cover('json-body')
    elif kind == 'form':
        fargs = {word(sym, 'fk', 1, 1): word(sym, 'fv', part['vallen'], 0), 'z': sym.choice('fz', ['', '&=', 'é'])}
        kw['fargs'] = fargs
        sym.cover('form-body')
    if part['method'] == 'GET':
        sym.cover('get-has-no-body')
    first = sym.choice('first_kind', ['data', 'fargs', 'body']) if vary == 'reuse' else None
    if hasattr(sym, 'built'):
        sym.built()          # all choices drawn
    if vary == 'reuse':
        # the same Requester was used before for a request with another payload kind (as Client.request does)
        rq = clienting.Requester(hostname='127.0.0.1', port=8080, method='POST', path='/first',
                                 **{first: {'k': 'v'} if first != 'body' else b'first-body'})
        rq.build()
        rq.reinit(method=part['method'], path=path, qargs=dict(qargs), headers=dict(hdrs), **kw)
        sym.cover('requester-reused')
    else:
        rq = clienting.Requester(hostname='127.0.0.1', port=8080, method=part['method'], path=path, qargs=dict(qargs), headers=dict(hdrs), **kw)
    if explicit and kind == 'raw':
        rq.headers['content-length'] = str(len(kw['body']))
        sym.cover('explicit-content-length')
    try:
        msg = rq.build()
    except Exception as ex:      # noqa
        from vf.engine.symx_guard import guard
        guard(ex)
        return Failure('build-raises:%s' % type(ex).__name__, lambda ex=ex: 'Requester.build raised %r for path %r qargs %r' % (ex, path, qargs))
    rt = serving.Requestant(msg=bytearray(msg), remoter=RemoterStub())
    try:
        while rt.parser:
            before = len(rt.msg)
            rt.parse()
            if rt.parser and len(rt.msg) == before:
                return Failure('server:request-incomplete', lambda: 'the server waits for more bytes after the whole request %r' % (bytes(msg),))
    except Exception as ex:      # noqa
        from vf.engine.symx_guard import guard
        guard(ex)
        return Failure('server:parse-raises:%s' % type(ex).__name__, lambda ex=ex: 'parsing the built request %r raised %r' % (bytes(msg), ex))
    if rt.errored:
        return Failure('server:rejects-built-request', lambda: 'request %r rejected: %r' % (bytes(msg), rt.error))
    srv = http.Server.__new__(http.Server)
    srv.scheme, srv.name, srv.servant = 'http', 'test', Servant()
    env = srv.buildEnviron(rt)
    if env['REQUEST_METHOD'] != part['method']:
        return Failure('recover:method', lambda: 'method %r' % env['REQUEST_METHOD'])
    if unquote(env['PATH_INFO']) != path:
        return Failure('recover:path', lambda: 'path %r recovered as %r (PATH_INFO %r); request line %r' % (path, unquote(env['PATH_INFO']), env['PATH_INFO'], bytes(msg).split(b'\r\n')[0]))
    got_q = dict(parse_qsl(env['QUERY_STRING'], keep_blank_values=True))
    if got_q != qargs:
        bad = 'key' if sorted(got_q) != sorted(qargs) else 'value'
        sepk = any(c in k for k in qargs for c in '&=;#')
        return Failure('recover:query-%s%s' % (bad, ':key-has-separator' if (bad == 'key' and sepk) else ''),
                       lambda: 'query arguments %r recovered as %r (QUERY_STRING %r)' % (qargs, got_q, env['QUERY_STRING']))
    if env.get('HTTP_X_EXTRA') != hdrs['X-Extra']:
        return Failure('recover:header', lambda: 'header value %r recovered as %r' % (hdrs['X-Extra'], env.get('HTTP_X_EXTRA')))
    got_body = env['wsgi.input'].read()
    if kind == 'raw' or kind == 'none':
        if part['method'] != 'GET' and got_body != exp_body:
            return Failure('recover:raw-body', lambda: 'body %r recovered as %r' % (bytes(exp_body), got_body))
    elif kind == 'json':
        try:
            back = json.loads(got_body.decode('utf-8'))
        except ValueError:
            back = None
        if back != data or 'application/json' not in env.get('CONTENT_TYPE', ''):
            return Failure('recover:json-body', lambda: 'data %r recovered as %r (%r, type %r)' % (data, back, got_body, env.get('CONTENT_TYPE')))
    elif kind == 'form':
        back = dict(parse_qsl(got_body.decode('utf-8'), keep_blank_values=True))
        if back != fargs or 'x-www-form-urlencoded' not in env.get('CONTENT_TYPE', ''):
            return Failure('recover:form-body', lambda: 'form fields %r recovered as %r (%r)' % (fargs, back, got_body))
    if part['method'] != 'GET' and got_body and env.get('CONTENT_LENGTH') != str(len(got_body)):
        return Failure('recover:content-length', lambda: 'CONTENT_LENGTH %r for a body of %d bytes' % (env.get('CONTENT_LENGTH'), len(got_body)))
    return None


MUTANTS = [
    ('key-not-quoted', 'hio/core/http/httping.py', "    qargParts = [u\"{0}={1}\".format(quote_plus(str(key)), quote_plus(str(val)))", "    qargParts = [u\"{0}={1}\".format(key, quote_plus(str(val)))"),
    ('form-joined-then-quoted', 'hio/core/http/clienting.py', "                    formParts = [u\"{0}={1}\".format(quote_plus(str(key)), quote_plus(str(val)))", "                    formParts = [u\"{0}={1}\".format(quote_plus(str(key)), str(val).replace(' ', '+'))"),
]
