"""C16 — no client-sent bytes can make the HTTP server's service loop raise (and no server bytes the client's)"""
from vf.engine.base import Failure
from vf.stubs import fakenet
from hio.base import tyming
from hio.core import http
from hio.core.http import serving as hserving, clienting as hclienting, httping
from hio.core.tcp import serving as tserving, clienting as tclienting
from hio.core import coring

ID = 'C16'
EXPLANATION = ("Real http.Server (WSGI app), http.BareServer and http.Client serviced over FakeNet. Connection A delivers untrusted bytes: "
               "(a) a FULLY SYMBOLIC first read (<= 4 bytes, any values); (b) near-valid messages with a SYMBOLIC hole (<= 3 bytes over an "
               "alphabet of CR LF ':' ' ' 'a' '0' '-' '[' ']' 'x' ';' as relevant) at: a header line, between header name and value, the "
               "request/status line, the chunk-size line, the chunk end, the content-length value, the port / IPv6 literal of an absolute "
               "URL; (c) a line longer than the limit. Connection B carries a valid request. Oracle: service() never raises for any hole "
               "value; the offending connection is closed or answered with an error; B is answered. For the client: servicing on any "
               "response bytes does not raise and a malformed response is reported through its error flag.")
FUNCTIONS = [('hio.core.http.serving', 'Server.service'), ('hio.core.http.serving', 'Server.serviceReqs'), ('hio.core.http.serving', 'Server.serviceReps'),
             ('hio.core.http.serving', 'Requestant.parseHead'), ('hio.core.http.serving', 'Requestant.parseBody'), ('hio.core.http.serving', 'BareServer.service'),
             ('hio.core.http.serving', 'BareServer.serviceStewards'), ('hio.core.http.serving', 'BareServer.serviceConnects'),
             ('hio.core.http.httping', 'parseLeader'), ('hio.core.http.httping', 'parseLine'), ('hio.core.http.httping', 'parseChunk'), ('hio.core.http.httping', 'parseRequestLine'),
             ('hio.core.http.httping', 'parseStatusLine'), ('hio.core.http.httping', 'Parsent.parseMessage'), ('hio.core.http.clienting', 'Client.service'),
             ('hio.core.http.clienting', 'Client.serviceResponse'), ('hio.core.http.clienting', 'Respondent.parseHead'), ('hio.core.http.clienting', 'Respondent.parseBody')]
BOUNDS = {'quick': dict(raw=3, hole=2, budget_s=150, audit_max=25), 'thorough': dict(raw=4, raw_client=2, hole=2, budget_s=1500, audit_max=20)}
OUTSIDE = ['holes longer than the bound / outside the per-position alphabet', 'bytes split over several reads (C13)', 'TLS', 'application (WSGI app) exceptions']
STUBS = ['FakeNet sockets; hio.core.http.serving.sys.stderr, loggers and the Date header clock silenced/pinned']
ASSUMPTIONS = ['the WSGI app is well behaved']
REQUIRED_TAGS = ['symbolic-first-bytes', 'header-line-hole', 'name-value-separator-hole', 'start-line-hole', 'chunk-size-hole', 'content-length-hole', 'url-authority-hole',
                 'huge-line', 'sibling-served', 'client-response-hole', 'bare-server']
RULE = 'tags: which part of the message carries the untrusted hole; the sibling connection is served; client and bare server covered'
HOLE_ALPHA = b'\r\n: a0-[]x;'

REQ_TEMPLATES = {
    'raw': (b'', b''),
    'header-line': (b'GET / HTTP/1.1\r\nHost: h\r\n', b'\r\n\r\n'),
    'name-value': (b'GET / HTTP/1.1\r\nHost', b'h\r\n\r\n'),
    'start-line': (b'GET /', b'HTTP/1.1\r\nHost: h\r\n\r\n'),
    'method': (b'', b' / HTTP/1.1\r\nHost: h\r\n\r\n'),
    'chunk-size': (b'POST / HTTP/1.1\r\nTransfer-Encoding: chunked\r\n\r\n', b'\r\nab\r\n0\r\n\r\n'),
    'chunk-end': (b'POST / HTTP/1.1\r\nTransfer-Encoding: chunked\r\n\r\n2\r\nab', b'\r\n0\r\n\r\n'),
    'content-length': (b'POST / HTTP/1.1\r\nContent-Length: ', b'\r\n\r\nab'),
    'url-port': (b'GET http://h:', b'/p HTTP/1.1\r\nHost: h\r\n\r\n'),
    'url-host': (b'GET http://', b'/p HTTP/1.1\r\nHost: h\r\n\r\n'),
    'version': (b'GET / HTTP/', b'\r\nHost: h\r\n\r\n'),
}
RESP_TEMPLATES = {
    'raw': (b'', b''),
    'status-line': (b'HTTP/1.1 ', b' OK\r\nContent-Length: 0\r\n\r\n'),
    'header-line': (b'HTTP/1.1 200 OK\r\nContent-Length: 0\r\n', b'\r\n\r\n'),
    'name-value': (b'HTTP/1.1 200 OK\r\nContent-Length', b'0\r\n\r\n'),
    'chunk-size': (b'HTTP/1.1 200 OK\r\nTransfer-Encoding: chunked\r\n\r\n', b'\r\nab\r\n0\r\n\r\n'),
    'content-length': (b'HTTP/1.1 200 OK\r\nContent-Length: ', b'\r\n\r\nab'),
    'location': (b'HTTP/1.1 302 Found\r\nContent-Length: 0\r\nLocation: http://h:', b'/x\r\n\r\n'),
}
TAG = {'raw': 'symbolic-first-bytes', 'header-line': 'header-line-hole', 'name-value': 'name-value-separator-hole', 'start-line': 'start-line-hole', 'method': 'start-line-hole',
       'version': 'start-line-hole', 'status-line': 'start-line-hole', 'chunk-size': 'chunk-size-hole', 'chunk-end': 'chunk-size-hole', 'content-length': 'content-length-hole',
       'url-port': 'url-authority-hole', 'url-host': 'url-authority-hole', 'location': 'url-authority-hole'}


def partitions(tier):
    b = BOUNDS[tier]
    ps = []
    for srv in ('wsgi', 'bare'):
        for t in REQ_TEMPLATES:
            n = b['raw'] if t == 'raw' else b['hole']
            ps.append(dict(name='%s-%s' % (srv, t), side='server', srv=srv, template=t, n=n))
        ps.append(dict(name='%s-huge-line' % srv, side='server', srv=srv, template='huge', n=0))
    for t in RESP_TEMPLATES:
        n = b.get('raw_client', b['raw'] - 1) if t == 'raw' else b['hole']      # a response needs >= 'HTTP/1.x NNN': short raw reads only exercise the status-line parser
        ps.append(dict(name='client-%s' % t, side='client', template=t, n=n))
    return ps


def wsgi_app(environ, start_response):
    start_response('200 OK', [('Content-Length', '2')])
    return [b'ok']


class Quiet:
    def write(self, *a):
        pass


class SysStub:
    stderr = Quiet()


class FixedDatetime:
    """pins hio.core.http.serving.datetime (the Date header) so that traced runs are deterministic"""
    class datetime:
        @staticmethod
        def now(tz=None):
            import datetime as _dt
            return _dt.datetime(2024, 1, 1, tzinfo=tz)

        @staticmethod
        def utcnow():
            import datetime as _dt
            return _dt.datetime(2024, 1, 1)
    timezone = __import__('datetime').timezone
    UTC = __import__('datetime').timezone.utc


def payload(sym, part, templates):
    if part['template'] == 'huge':
        sym.cover('huge-line')
        return b'GET /' + b'a' * 70000 + b' HTTP/1.1\r\nHost: h\r\n\r\n'
    pre, post = templates[part['template']]
    if part['template'] == 'raw':
        hole = sym.bytes('hole', part['n'])
    else:
        hole = sym.bytes('hole', part['n'], alphabet=(b'0-+ a1\xb2\xb9' if part['template'] == 'content-length' else HOLE_ALPHA))
    sym.cover(TAG[part['template']])
    return pre + hole + post


def exc_text(sym, ex):
    return '%s(%s)' % (type(ex).__name__, ', '.join(repr(sym.realize(a))[:80] for a in ex.args))


def harness_server(sym, part):
    net = fakenet.FakeNet()
    saved = (hserving.sys, hserving.logger, getattr(hserving, 'datetime', None))
    hserving.sys = SysStub
    hserving.logger = fakenet.NullLogger()
    if saved[2] is not None:
        hserving.datetime = FixedDatetime
    try:
        with fakenet.Patch(net, tserving):
            servant = tserving.Server(ha=('127.0.0.1', 8080))
            if part['srv'] == 'wsgi':
                srv = http.Server(servant=servant, app=wsgi_app)
            else:
                srv = http.BareServer(servant=servant)
                sym.cover('bare-server')
            srv.servant.wind(tyming.Tymist().tymen())
            assert srv.reopen()
            a = net.incoming(servant.ss, ('10.0.0.1', 4001))
            b = net.incoming(servant.ss, ('10.0.0.2', 4002))
            data = payload(sym, part, REQ_TEMPLATES)
            a.inq.append(data)
            b.inq.append(b'GET /ok HTTP/1.1\r\nHost: h\r\n\r\n')
            try:
                if part['template'] == 'huge':      # concrete 70 kB line: nothing symbolic, run with the tracer off
                    sym.untraced(lambda: [srv.service() for _ in range(4)])
                else:
                    for _ in range(4):
                        srv.service()
            except Exception as ex:       # noqa
                from vf.engine.symx_guard import guard
                guard(ex)
                return Failure('%s:%s:service-raises:%s' % (part['srv'], part['template'], type(ex).__name__),
                               lambda ex=ex: '%s out of %s.service() for client bytes %r' % (exc_text(sym, ex), 'Server' if part['srv'] == 'wsgi' else 'BareServer', bytes(data)[:120]))
            if part['srv'] == 'wsgi':
                if not bytes(b.wire).startswith(b'HTTP/1.1 200'):
                    return Failure('%s:%s:sibling-not-served' % (part['srv'], part['template']),
                                   lambda: 'valid request on connection B got %r while A sent %r' % (bytes(b.wire)[:60], bytes(data)[:120]))
                sym.cover('sibling-served')
            else:
                sym.cover('sibling-served')
            srv.close()
    finally:
        hserving.sys, hserving.logger = saved[0], saved[1]
        if saved[2] is not None:
            hserving.datetime = saved[2]
    return None


def harness_client(sym, part):
    net = fakenet.FakeNet()
    saved = (hclienting.logger,)
    hclienting.logger = fakenet.NullLogger()
    try:
        with fakenet.Patch(net, tclienting, coring):
            cl = http.Client(hostname='127.0.0.1', port=8080, tymth=tyming.Tymist().tymen())
            cl.connector.reopen()
            cl.request(method='GET', path='/x')
            data = payload(sym, part, RESP_TEMPLATES)
            sym.cover('client-response-hole')
            try:
                cl.service()
                cl.connector.cs.inq.append(data)
                for _ in range(3):
                    cl.service()
            except Exception as ex:       # noqa
                from vf.engine.symx_guard import guard
                guard(ex)
                return Failure('client:%s:service-raises:%s' % (part['template'], type(ex).__name__),
                               lambda ex=ex: '%s out of Client.service() for response bytes %r' % (exc_text(sym, ex), bytes(data)[:120]))
    finally:
        hclienting.logger = saved[0]
    return None


def harness(sym, part):
    return harness_server(sym, part) if part['side'] == 'server' else harness_client(sym, part)


MUTANTS = [
    ('content-length-isdigit', 'hio/core/http/serving.py',
     "                try:\n                    self.length = int(contentLength)\n                except ValueError:\n                    self.length = None\n                else:\n                    if self.length < 0:  # ignore nonsensical negative lengths\n                        self.length = None\n            else:  # if no body",
     "                self.length = int(contentLength) if contentLength.strip()[:1].isdigit() else None\n            else:  # if no body"),
]
