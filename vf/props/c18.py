"""C18 — WSGI responses are framed and pipelined requests answered in order"""
from vf.engine.base import Failure
from vf.stubs import fakenet
from vf.props.c16 import SysStub, FixedDatetime
from hio.base import tyming
from hio.core import http
from hio.core.http import serving as hserving
from hio.core.tcp import serving as tserving

ID = 'C18'
EXPLANATION = ("Real http.Server (serviceReqs/serviceReps) and Responder (reset/build/write/start/service/close) over FakeNet with a scripted WSGI "
               "(every scenario runs against a peer that takes each send whole AND against a slow reader, <= 16 bytes per send) "
               "application. On one connection 2 (quick) / 3 pipelined requests, each HTTP/1.0 or 1.1, keep-alive / close / default, "
               "solver-chosen; per response the app's status (200/404), whether it declares Content-Length (equal to the body, or "
               "SHORTER than what it then yields), the number of body pieces (0-3, incl. empty ones) and an extra header are "
               "solver-chosen. The bytes the client socket received are parsed by an independent 40-line response splitter in the "
               "harness. Oracle: while the connection is open every response is self-delimiting (Content-Length or chunked); responses "
               "come in request order; status, extra header and body equal the app's output (clamped to the declared length); the "
               "server closes the connection exactly after the response to the first non-persistent request and not before.")
FUNCTIONS = [('hio.core.http.serving', 'Server.serviceReqs'), ('hio.core.http.serving', 'Server.serviceReps'), ('hio.core.http.serving', 'Server.closeConnection'),
             ('hio.core.http.serving', 'Responder.reset'), ('hio.core.http.serving', 'Responder.build'), ('hio.core.http.serving', 'Responder.write'),
             ('hio.core.http.serving', 'Responder.start'), ('hio.core.http.serving', 'Responder.service'), ('hio.core.http.serving', 'Responder.close'),
             ('hio.core.http.serving', 'Requestant.checkPersisted'), ('hio.core.http.httping', 'packChunk')]
BOUNDS = {'quick': dict(requests=2, budget_s=150, audit_max=8), 'thorough': dict(requests=3, budget_s=1500, audit_max=20, third_request='HTTP/1.1 or 1.0, first two bodies, whole or split-with-empty-piece')}
OUTSIDE = ['HTTP/1.0 keep-alive requests whose response has no Content-Length cannot stay open AND be self-delimiting: the oracle counts them as non-persistent (the server must close)', 'applications that declare a Content-Length LONGER than the body they produce (an application error the server cannot repair)', 'write() callable use, HTTPError raised by the app',
           'server-sent-event responses', 'more than `requests` requests per connection', 'request bodies']
STUBS = ['FakeNet; scripted WSGI app; stderr/loggers silenced; Date header clock pinned']
ASSUMPTIONS = ['the client sends all pipelined requests at once and reads everything']
REQUIRED_TAGS = ['slow-reader-partial-sends', 'no-content-length-after-content-length', 'two-chunked-in-a-row', 'http10-request', 'connection-close', 'keep-alive-http10', 'empty-body', 'empty-piece', 'content-length-shorter-than-body', 'status-404']
RULE = 'tags: sequences of framed/unframed-capable responses on one connection, HTTP/1.0 and close semantics, empty bodies/pieces, declared length shorter than the body'
BODIES = [b'', b'a', b'bc', b'def']


def partitions(tier):
    b = BOUNDS[tier]
    ps = []
    for v1 in ('1.1', '1.0ka', '1.0'):
        for cl1 in ('cl', 'nocl', 'short'):
            if b['requests'] < 3 or v1 == '1.0':      # after a plain HTTP/1.0 request the connection is closed: one follower is enough
                ps.append(dict(name='first-%s-%s' % (v1, cl1), v1=v1, cl1=cl1, requests=min(b['requests'], 2)))
            else:      # three requests: one partition per version of the second request as well
                for v2 in ('1.1', '1.1close', '1.0ka', '1.0'):
                    ps.append(dict(name='first-%s-%s-second-%s' % (v1, cl1, v2), v1=v1, cl1=cl1, v2=v2, requests=b['requests']))
    return ps


def split_responses(data, closed):
    """independent reference splitter: list of (status, headers, body); ValueError when a response is not self-delimiting"""
    out = []
    i = 0
    while i < len(data):
        j = data.find(b'\r\n\r\n', i)
        if j < 0:
            raise ValueError('incomplete head at %d' % i)
        lines = data[i:j].split(b'\r\n')
        status = lines[0].split(b' ', 2)[1]
        hdrs = {}
        for ln in lines[1:]:
            k, _, v = ln.partition(b':')
            hdrs[k.strip().lower()] = v.strip()
        i = j + 4
        if hdrs.get(b'transfer-encoding') == b'chunked':
            body = b''
            while True:
                k = data.find(b'\r\n', i)
                if k < 0:
                    raise ValueError('incomplete chunk size line')
                size = int(data[i:k], 16)
                i = k + 2
                if size == 0:
                    if data[i:i + 2] != b'\r\n':
                        raise ValueError('bad last chunk')
                    i += 2
                    break
                body += data[i:i + size]
                if data[i + size:i + size + 2] != b'\r\n':
                    raise ValueError('bad chunk end')
                i += size + 2
        elif b'content-length' in hdrs:
            n = int(hdrs[b'content-length'])
            if len(data) - i < n:
                raise ValueError('body shorter than declared')
            body = data[i:i + n]
            i += n
        else:
            if not closed:
                raise ValueError('response %d has neither Content-Length nor chunked coding on an open connection' % len(out))
            body = data[i:]
            i = len(data)
        out.append((status, hdrs, body))
    return out


def run(sym, part, specs, slow=False):
    net = fakenet.FakeNet()
    saved = (hserving.sys, hserving.logger, hserving.datetime)
    hserving.sys, hserving.logger, hserving.datetime = SysStub, fakenet.NullLogger(), FixedDatetime
    try:
        with fakenet.Patch(net, tserving):
            nreq = part['requests']
            calls = {'i': 0}

            def app(environ, start_response):
                sp = specs[min(calls['i'], len(specs) - 1)]
                calls['i'] += 1
                hdrs = [('Content-Type', 'text/plain'), ('X-Req', environ['PATH_INFO'])]
                body = sp['body']
                if sp['cl'] == 'cl':
                    hdrs.append(('Content-Length', str(len(body))))
                elif sp['cl'] == 'short':
                    hdrs.append(('Content-Length', str(max(len(body) - 1, 0))))
                start_response(sp['status'], hdrs)
                if sp['pieces'] == 0:
                    return [body] if body else []
                if sp['pieces'] == 1:
                    return [body]
                return [body[:1], b'', body[1:]]
            servant = tserving.Server(ha=('127.0.0.1', 8080))
            srv = http.Server(servant=servant, app=app)
            srv.wind(tyming.Tymist().tymen())
            assert srv.reopen()
            a = net.incoming(servant.ss, ('10.0.0.1', 4001))
            wire_in = b''
            persist = []
            for r, sp in enumerate(specs):
                v = sp['ver']
                line = b'GET /%d HTTP/%s\r\nHost: h\r\n' % (r, b'1.1' if v.startswith('1.1') else b'1.0')
                if v == '1.1close':
                    line += b'Connection: close\r\n'
                    sym.cover('connection-close')
                if v == '1.0ka':
                    line += b'Connection: keep-alive\r\n'
                    sym.cover('keep-alive-http10')
                if v.startswith('1.0'):
                    sym.cover('http10-request')
                wire_in += line + b'\r\n'
                # an HTTP/1.0 keep-alive exchange can only persist when the response carries a length (no chunked coding in 1.0)
                persist.append(v == '1.1' or (v == '1.0ka' and sp['cl'] != 'nocl'))
            a.inq.append(wire_in)
            if slow:      # a slow reader: the kernel accepts at most 16 bytes per send(), so every response needs several service passes
                a.on_send = lambda s_, data: min(len(data), 16)
                sym.cover('slow-reader-partial-sends')
            try:
                for _ in range((40 if slow else 4) * nreq + 4):
                    srv.service()
            except Exception as ex:     # noqa
                from vf.engine.symx_guard import guard
                guard(ex)
                return Failure('service-raises:%s' % type(ex).__name__, lambda ex=ex: 'Server.service() raised %r; specs %r' % (ex, specs))
            wire = bytes(a.wire)
            # which requests does the server answer: all up to and including the first non-persistent one
            n_ans = nreq
            for r in range(nreq):
                if not persist[r]:
                    n_ans = r + 1
                    break
            should_close = n_ans <= nreq and not persist[n_ans - 1]
            for r, sp in enumerate(specs[:n_ans]):
                if sp['body'] == b'':
                    sym.cover('empty-body')
                if sp['pieces'] == 2:
                    sym.cover('empty-piece')
                if sp['cl'] == 'short' and sp['body']:
                    sym.cover('content-length-shorter-than-body')
                if sp['status'].startswith('404'):
                    sym.cover('status-404')
                if r > 0 and sp['cl'] == 'nocl' and specs[r - 1]['cl'] != 'nocl':
                    sym.cover('no-content-length-after-content-length')
                if r > 0 and sp['cl'] == 'nocl' and specs[r - 1]['cl'] == 'nocl':
                    sym.cover('two-chunked-in-a-row')
            try:
                rs = split_responses(wire, closed=a.closed)
            except ValueError as ex:
                # which response is not framed, and in which situation
                k = len([1 for _ in []])
                kind = 'other'
                msg = str(ex)
                if 'neither Content-Length nor chunked' in msg:
                    idx = int(msg.split()[1])
                    sp = specs[idx] if idx < len(specs) else None
                    if sp and sp['ver'].startswith('1.0'):
                        kind = 'http10-keep-alive-response-without-length'
                    elif idx > 0:
                        kind = 'later-response-on-reused-connection-not-chunked'
                    else:
                        kind = 'first-response'
                return Failure('framing:%s' % kind, lambda ex=ex: '%s; connection open=%r; wire %r; specs %r' % (ex, not a.closed, wire, specs))
            if len(rs) != n_ans:
                return Failure('count:responses-%s' % ('missing' if len(rs) < n_ans else 'extra'), lambda: 'expected %d responses got %d: %r; specs %r' % (n_ans, len(rs), wire, specs))
            for r, ((status, hdrs, body), sp) in enumerate(zip(rs, specs)):
                exp_body = sp['body'] if sp['cl'] != 'short' else sp['body'][:max(len(sp['body']) - 1, 0)]
                if status != sp['status'].split()[0].encode():
                    return Failure('content:status', lambda r=r: 'response %d status %r expected %r' % (r, status, sp['status']))
                if hdrs.get(b'x-req') != b'/%d' % r:
                    return Failure('order:response-for-wrong-request', lambda r=r: 'response %d carries X-Req %r' % (r, hdrs.get(b'x-req')))
                if body != exp_body:
                    return Failure('content:body%s' % (':exceeds-declared-length' if len(body) > len(exp_body) else ''),
                                   lambda r=r, body=body, exp_body=exp_body: 'response %d body %r expected %r (declared %r); wire %r' % (r, body, exp_body, hdrs.get(b'content-length'), wire))
            if should_close and not a.closed:
                return Failure('close:not-closed-after-non-persistent-request', lambda: 'connection still open after answering non-persistent request %d; specs %r' % (n_ans - 1, specs))
            if not should_close and a.closed:
                return Failure('close:closed-although-persistent', lambda: 'connection closed although every request was persistent; specs %r' % (specs,))
            srv.close()
    finally:
        hserving.sys, hserving.logger, hserving.datetime = saved
    return None


def harness(sym, part):
    nreq = part['requests']
    specs = []
    for r in range(nreq):
        if r == 0:
            ver, cl = part['v1'], part['cl1']
        else:
            ver = part['v2'] if (r == 1 and 'v2' in part) else sym.choice('ver%d' % r, ['1.1', '1.1close', '1.0ka', '1.0'] if not (nreq >= 3 and r == 2) else ['1.1', '1.0'])
            cl = sym.choice('cl%d' % r, ['cl', 'nocl', 'short'])
        third = nreq >= 3 and r == 2      # the third request of a triple: reduced body / piece choice (stated in BOUNDS)
        body = sym.choice('body%d' % r, BODIES if not third else BODIES[:2])
        pieces = sym.cint('pieces%d' % r, 0, 2) if not (nreq >= 3 and r >= 1) else 2 * sym.cint('pieces%d' % r, 0, 1)
        status = sym.choice('status%d' % r, ['200 OK', '404 Not Found']) if r == 0 else '200 OK'
        specs.append(dict(ver=ver, cl=cl, body=body, pieces=pieces, status=status))
    # every choice is realised: the server run has nothing symbolic left, so it runs with the tracer off
    # both transports are folded into the leaf: a peer that takes everything at once, and a slow reader (partial sends)
    return sym.untraced(lambda: run(sym, part, specs) or run(sym, part, specs, slow=True))


MUTANTS = [
    ('length-clamp-off-for-zero', 'hio/core/http/serving.py', "        if self.length is not None:  # limit total size to length", "        if self.length:  # limit total size to length"),
]

