"""C25 — boxwork transitions run exit/enter actions in documented nested order"""
from vf.engine.base import Failure
from hio.base.hier import boxing
from hio.base.hier.bagging import Bag
from hio.base import tyming

ID = 'C25'
EXPLANATION = ("Real Boxer.run generator (first pass, transition block, end), Boxer.exen, predo/exdo/rexdo/rendo/endo/end and Box.pile/_trace on box "
               "trees given by parent vectors (chains, forks at each level, two separate roots; <= 6 boxes). Every box carries two recording "
               "actions per context (enter, exit, re-enter, re-exit) and one transition action; per pass the solver chooses which level of the "
               "active pile fires (any level, so upper boxes fire while a non-primary branch is active), the destination box (sibling, cousin, "
               "ancestor, descendant, self, other tree, or none) and which box of the destination pile, if any, has a failing entry "
               "precondition; all choices are enumerated to exhaustion. The recorded action trace of every pass is compared with the documented "
               "order: left boxes exited bottom-up, kept boxes re-exited bottom-up then re-entered top-down, arrived boxes entered top-down, two "
               "actions per box in declaration order; a blocked transition runs nothing; the end pass exits the active pile bottom-up once.")
FUNCTIONS = [('hio.base.hier.boxing', n) for n in ('Boxer.run', 'Boxer.exen', 'Boxer.predo', 'Boxer.exdo', 'Boxer.rexdo', 'Boxer.rendo', 'Boxer.endo', 'Boxer.end', 'Boxer.endial',
                                                   'Box._trace', 'Box.predo', 'Box.endo', 'Box.exdo', 'Box.rendo', 'Box.rexdo')]
BOUNDS = {'quick': dict(steps=2, budget_s=200, audit_max=6), 'thorough': dict(steps=3, budget_s=2400, audit_max=20)}
OUTSIDE = ['trees with more than 6 boxes / deeper than 4', 'more passes than the bound (2; 3 in the thorough tier on the chain, wide and two-root trees)', 'several transition actions per box', 'the declarative builder (Boxer.make / bx / go verbs): boxes are wired directly',
           'marks (enmarks/remarks), redo/afdo actions (not part of the statement)']
STUBS = ['boxes constructed and wired directly (over/unders), actions are recording closures']
ASSUMPTIONS = []
REQUIRED_TAGS = ['sibling', 'ancestor', 'descendant', 'self-reentry', 'other-tree', 'upper-box-fires-on-non-primary-branch', 'precondition-fails', 'blocked-then-other-box-fires', 'end-after-transition', 'cousin']
RULE = 'tags: sibling / cousin / ancestor / descendant / self / other-tree destinations, an upper box firing while a non-primary branch is active, failing preconditions, end after a transition'
SOLVER_ROLE = 'enumeration of a finite transition-script space through the solver-maintained path tree; each pass then runs concretely on the real generator'
TREES = {
    'fork2': [-1, 0, 1, 1, 0],             # b0>(b1>(b2,b3), b4)
    'chain': [-1, 0, 1, 2],                # b0>b1>b2>b3
    'wide': [-1, 0, 0, 0],                 # b0>(b1,b2,b3)
    'deepfork': [-1, 0, 1, 2, 2, 1],       # b0>b1>(b2>(b3,b4), b5)
    'two-roots': [-1, 0, 0, -1, 3],        # b0>(b1,b2) ; b3>b4
    'twins': [-1, 0, 1, 0, 3],             # b0>(b1>b2, b3>b4)
}


def partitions(tier):
    b = BOUNDS[tier]
    ps = []
    for name, parents in TREES.items():
        n = len(parents)
        seen = set()
        for start in range(n):
            pile = tuple(pile_of(parents, start))
            if tier == 'quick' and pile in seen:      # quick: one start box per distinct initial pile
                continue
            seen.add(pile)
            steps = b['steps'] if not (tier == 'thorough' and name in ('deepfork', 'fork2', 'twins')) else 2      # three passes on the smaller trees only
            for lvl0 in range(len(pile)):      # which level of the initial pile fires in the first pass
                ps.append(dict(name='%s-start-b%d-fires-b%d' % (name, start, pile[lvl0]), tree=name, start=start, steps=steps, form='script', level0=lvl0))
        for start in sorted({pile_of(parents, k)[-1] for k in range(n)}):
            ps.append(dict(name='%s-blocked-then-lower-fires-b%d' % (name, start), tree=name, start=start, steps=1, form='two-fire'))
    return ps


def pile_of(parents, i):
    up, j = [], i
    while j != -1:
        up.insert(0, j)
        j = parents[j]
    j = i
    while True:
        kids = [k for k in range(len(parents)) if parents[k] == j]
        if not kids:
            break
        j = kids[0]
        up.append(j)
    return up


def expected(active, far, d, prefail):
    """documented action trace of a transition from the active pile to the pile of d; None when blocked"""
    i = 0
    while i < min(len(active), len(far)) and not (active[i] == d or far[i] != active[i]):
        i += 1
    endos = far[i:]
    if prefail in endos:
        return None
    exdos, rex, ren = list(reversed(active[i:])), list(reversed(active[:i])), far[:i]
    return ([('ex', n, j) for n in exdos for j in (0, 1)] + [('rex', n, j) for n in rex for j in (0, 1)] +
            [('ren', n, j) for n in ren for j in (0, 1)] + [('en', n, j) for n in endos for j in (0, 1)])


def harness(sym, part):
    parents = TREES[part['tree']]
    n = len(parents)
    log = []
    ctl = dict(fire=None, dest=None, prefail=-1)       # which box fires this pass, where to, which box's precondition fails

    def build():
        boxes = []
        for i in range(n):
            b = boxing.Box(name='b%d' % i, over=(boxes[parents[i]] if parents[i] >= 0 else None))
            if parents[i] >= 0:
                boxes[parents[i]].unders.append(b)
            for tag, lst in (('en', b.enacts), ('ex', b.exacts), ('ren', b.renacts), ('rex', b.rexacts)):
                lst.append(lambda t=tag, k=i: log.append((t, k, 0)))
                lst.append(lambda t=tag, k=i: log.append((t, k, 1)))
            b.goacts.append(lambda k=i: boxes[ctl['dest']] if ctl['fire'] == k and ctl['dest'] is not None else
                            (boxes[ctl['dest2']] if ctl.get('fire2') == k and ctl.get('dest2') is not None else None))
            b.preacts.append(lambda k=i: ctl['prefail'] != k)
            boxes.append(b)
        bx = boxing.Boxer(name='bx')
        bx.boxes = {b.name: b for b in boxes}
        bx.first = boxes[part['start']]
        tymist = tyming.Tymist()
        bx.wind(tymist.tymen())
        g = bx.run(tock=0.0)
        g.send(None)
        g.send(0.0)                    # first pass: enters the initial pile
        return boxes, bx, g
    try:
        boxes, bx, g = sym.untraced(build)
    except Exception as ex:      # noqa
        return Failure('first-pass-raises:%s' % type(ex).__name__, 'building / first pass raised %r' % (ex,))
    active = pile_of(parents, part['start'])
    exp_first = [('en', k, j) for k in active for j in (0, 1)]
    if log != exp_first:
        return Failure('first-pass:entry-order', 'initial entry %r, documented %r' % (log, exp_first))
    hist = []
    cur = part['start']
    for step in range(part['steps']):
        d = sym.cint('dest%d' % step, -1, n - 1)
        lvl = sym.cint('level%d' % step, 0, len(active) - 1) if (step or 'level0' not in part) else part['level0']
        far = pile_of(parents, d) if d >= 0 else []
        if not far:
            pf = -1
        elif step == 0 or part['form'] == 'two-fire':
            pf = sym.cint('prefail%d' % step, -1, len(far) - 1)       # any box of the destination pile
        else:
            pf = (len(far) - 1) if sym.cbool('prefail%d' % step) else -1      # later passes: none, or the bottom box of the destination pile
        prefail = far[pf] if pf >= 0 else -1
        fire = active[lvl]
        fire2 = dest2 = None
        if part['form'] == 'two-fire':
            # the first transition must be refused; then a LOWER box of the active pile fires its own transition in the same pass
            if d < 0 or expected(active, far, d, prefail) is not None or lvl >= len(active) - 1:
                sym.assume(False)
            lvl2 = sym.cint('level_b', lvl + 1, len(active) - 1)
            dest2 = sym.cint('dest_b', 0, n - 1)
            fire2 = active[lvl2]
            if prefail in pile_of(parents, dest2):      # the same failing precondition must not block the second one
                sym.assume(False)
            sym.cover('blocked-then-other-box-fires')
        hist.append(dict(active=['b%d' % k for k in active], fires='b%d' % fire, dest=('b%d' % d) if d >= 0 else None,
                         failing_precondition=('b%d' % prefail) if prefail >= 0 else None))
        exp = []
        new_active = active
        if fire2 is not None:
            hist[-1].update(then_fires='b%d' % fire2, then_dest='b%d' % dest2)
            far = pile_of(parents, dest2)
            exp, new_active = expected(active, far, dest2, prefail), far
            d_eff = dest2
        elif d >= 0:
            e = expected(active, far, d, prefail)
            if e is not None:
                exp, new_active = e, far
            if prefail >= 0 and e is None:
                sym.cover('precondition-fails')
            if e is not None:
                d_eff = d
                up = lambda k: ([] if parents[k] < 0 else [parents[k]] + up(parents[k]))
                if d == cur:
                    sym.cover('self-reentry')
                elif d in up(cur):
                    sym.cover('ancestor')
                elif cur in up(d):
                    sym.cover('descendant')
                elif far[0] != active[0]:
                    sym.cover('other-tree')
                elif parents[d] == parents[cur]:
                    sym.cover('sibling')
                else:
                    sym.cover('cousin')
                if pile_of(parents, fire) != active:
                    sym.cover('upper-box-fires-on-non-primary-branch')
                if step:
                    sym.cover('transition-after-transition')

        def one_pass():
            del log[:]
            ctl.update(fire=fire, dest=d if d >= 0 else None, prefail=prefail, fire2=fire2, dest2=dest2)
            try:
                g.send(float(step + 1))
            except StopIteration:
                return 'generator-ended'
            except Exception as ex:      # noqa
                return 'raises:%s' % type(ex).__name__
            return None
        err = sym.untraced(one_pass)
        if err:
            return Failure('pass:%s' % err, 'passes %r: %s' % (hist, err))
        if log != exp:
            blocked = fire2 is None and d >= 0 and expected(active, pile_of(parents, d), d, prefail) is None
            kind = classify(log, exp, blocked)
            return Failure('transition:%s' % kind, 'passes %r: action trace %r, documented %r' % (hist, fmt(log), fmt(exp)))
        if exp:
            cur = d_eff
        active = new_active
        if bx.box is not boxes[cur]:
            return Failure('transition:active-box', 'passes %r: active box is %s, documented b%d' % (hist, bx.box.name, cur))
    # end pass

    def end_pass():
        del log[:]
        ctl.update(fire=None, dest=None, prefail=-1, fire2=None, dest2=None)
        bx.hold[("", "boxer", "bx", "end")] = Bag(value=True)
        try:
            g.send(9.0)
        except StopIteration:
            return None
        except Exception as ex:      # noqa
            return 'raises:%s' % type(ex).__name__
        return 'not-ended'
    err = sym.untraced(end_pass)
    if err:
        return Failure('end:%s' % err, 'passes %r then end: %s' % (hist, err))
    exp = [('ex', k, j) for k in reversed(active) for j in (0, 1)]
    if any(h['dest'] for h in hist):
        sym.cover('end-after-transition')
    if log != exp:
        kind = 'top-down-instead-of-bottom-up' if log == [('ex', k, j) for k in active for j in (0, 1)] and len(active) > 1 else 'wrong-boxes-or-order'
        return Failure('end:%s' % kind, 'passes %r then end: exit trace %r, documented %r' % (hist, fmt(log), fmt(exp)))
    return None


def fmt(tr):
    return ' '.join('%s(b%d)%s' % (t, k, "'" if j else '') for t, k, j in tr)


def classify(log, exp, blocked):
    if blocked:
        return 'blocked-transition-ran-actions'
    if not exp and log:
        return 'actions-without-transition'
    if sorted(log) == sorted(exp):
        rex_l, rex_e = [x for x in log if x[0] == 'rex'], [x for x in exp if x[0] == 'rex']
        ren_l, ren_e = [x for x in log if x[0] == 'ren'], [x for x in exp if x[0] == 'ren']
        if [x for x in log if x[0] not in ('rex', 'ren')] == [x for x in exp if x[0] not in ('rex', 'ren')] and (rex_l != rex_e or ren_l != ren_e):
            return 'kept-boxes-reexit-or-reenter-order'
        return 'order'
    return 'wrong-boxes'


MUTANTS = [
    ('unpack-swap', 'hio/base/hier/boxing.py', "exdos, endos, rexdos, rendos = self.exen(self.box, dest)", "exdos, endos, rendos, rexdos = self.exen(self.box, dest)"),
    ('exen-firing-box', 'hio/base/hier/boxing.py', "self.exen(self.box, dest)", "self.exen(box, dest)"),
    ('stale-endos', 'hio/base/hier/boxing.py', "                            rendos = []  # no transit so nothing to re-enter\n                            endos = []  # no transit so nothing to enter\n", ""),
    ('end-top-down', 'hio/base/hier/boxing.py', "self.exdo(reversed(self.box.pile))", "self.exdo(self.box.pile)"),
    ('exen-no-forced-reentry', 'hio/base/hier/boxing.py', "            if (far is nears[i]) or (fars[i] is not nears[i]):", "            if (fars[i] is not nears[i]) or i == l - 1:"),
    ('predo-checks-last-only', 'hio/base/hier/boxing.py', "        for box in predos:\n            met = box.predo()\n            if not met:\n                break\n        return met", "        for box in predos:\n            met = box.predo()\n        return met"),
]
