"""C24 — keyed durable stores match a dictionary model for all keys"""
from vf.engine.base import Failure
from vf.kits import lmdbkit
from hio.base import during

ID = 'C24'
EXPLANATION = ("Real Suber / IoSuber / IoSetSuber and the Duror cursor routines under them (suffix/unsuffix, getIoVals, getIoValFirst/Last, "
               "popIoVal, remIoVals, addIoVal, putIoVals, pinIoVals, addIoSetVal, putIoSetVals, pinIoSetVals, remIoSetVal, getTopItemIter) "
               "over a pure-Python sorted store (FakeLMDB) in the symbolic run and over the REAL lmdb in every replay / audit run. A "
               "sequence of operations (kind, key, value each solver-chosen) on a PAIR of related keys (prefix of each other, containing "
               "the insertion-ordinal separator '.', the key separator '_', a tuple key that joins to the other key, a key that equals "
               "the other key + '.' + 32 hex digits, unrelated) is enumerated to exhaustion; after every operation the return value and "
               "what get / cnt / getFirst / getLast / whole-store iteration return for BOTH keys and a bystander key are compared with a "
               "dictionary of value / list / ordered set.")
FUNCTIONS = [('hio.base.during', n) for n in ('Duror.suffix', 'Duror.unsuffix', 'Duror.putVal', 'Duror.pinVal', 'Duror.getVal', 'Duror.remVal', 'Duror.cntVals', 'Duror.getTopItemIter',
                                              'Duror.getIoVals', 'Duror.getIoValFirst', 'Duror.getIoValLast', 'Duror.popIoVal', 'Duror.remIoVals', 'Duror.cntIoVals',
                                              'Duror.addIoVal', 'Duror.putIoVals', 'Duror.pinIoVals', 'Duror.addIoSetVal', 'Duror.putIoSetVals', 'Duror.pinIoSetVals',
                                              'Duror.remIoSetVal', 'Suber.put', 'Suber.pin', 'Suber.get', 'Suber.rem', 'IoSuber.add', 'IoSuber.put', 'IoSuber.pin', 'IoSuber.pop',
                                              'IoSuber.rem', 'IoSuber.get', 'IoSuber.cnt', 'IoSetSuber.add', 'IoSetSuber.put', 'IoSetSuber.pin', 'IoSetSuber.pop', 'IoSetSuber.rem',
                                              'IoSetSuber.get', 'IoSetSuber.cnt', 'SuberBase._tokey', 'SuberBase.getItemIter')]
BOUNDS = {'quick': dict(nops=3, budget_s=200, audit_max=4), 'thorough': dict(nops=3, free_first=True, budget_s=2400, audit_max=12)}      # the first operation's key and value are free as well
OUTSIDE = ['more than three operations per sequence', 'more than two keys plus a bystander per sequence', 'values other than the three short strings',
           'ordinals beyond 2**128 (suffix overflow)', 'LMDB itself (the symbolic run uses the stub; replays and audits use the real library)', 'store reopen (C23)']
STUBS = ['FakeLMDB (vf/stubs/fakelmdb.py) in the symbolic run only']
ASSUMPTIONS = ['keys are non-empty and below LMDB\'s key size limit']
REQUIRED_TAGS = ['prefix-keys', 'separator-in-key', 'tuple-key', 'suffix-shaped-key', 'pop-empty', 'duplicate-value', 'remove-one-value', 'overwrite', 'interleaved-keys']
RULE = 'tags: keys that are prefixes, keys containing separators, tuple keys, a key shaped like another key\'s hidden suffix, pops of empty keys, duplicate values, single-value removal'
SOLVER_ROLE = 'enumeration of a finite operation-sequence space through the solver-maintained path tree; each operation then runs concretely on the real code'
VALS = ['x', 'y', 'z']
HEX1 = '0' * 31 + '1'
PAIRS = {
    'prefix': ('a', 'ab'), 'ionsep': ('a', 'a.'), 'ionsep-mid': ('a', 'a.b'), 'keysep': ('a', 'a_b'), 'tuple': (('a', 'b'), 'a_b'),
    'suffix-shaped': ('a', 'a.' + HEX1), 'suffix-shaped-2': ('a.' + HEX1, 'a'), 'unrelated': ('a', 'b'), 'hexish': ('a.f', 'a.0'),
    'prefix-2': ('ab', 'a'), 'ionsep-mid-2': ('a.b', 'a'), 'ionsep-g': ('a', 'a.g'),
}
KINDS = ('plain', 'io', 'ioset')
OPS = {'plain': ['put', 'pin', 'rem', 'get'],
       'io': ['add', 'put2', 'pin1', 'pop', 'rem', 'get'],
       'ioset': ['add', 'put2', 'pin2', 'pop', 'rem', 'remval', 'get']}
ADDERS = {'plain': ['put', 'pin'], 'io': ['add', 'put2', 'pin1'], 'ioset': ['add', 'put2', 'pin2']}


def partitions(tier):
    b = BOUNDS[tier]
    ps = []
    for kind in KINDS:
        for pn in PAIRS:
            for first in ADDERS[kind]:
                ps.append(dict(name='%s-%s-first-%s' % (kind, pn, first), kind=kind, pair=pn, first=first, nops=b['nops'], free_first=b.get('free_first', False)))
    return ps


class Model:
    def __init__(self, kind, tokey):
        self.kind, self.tokey, self.d = kind, tokey, {}

    def apply(self, op, key, v):
        """returns expected return value"""
        k = self.tokey(key)
        d = self.d
        w = VALS[(VALS.index(v) + 1) % 3]
        if self.kind == 'plain':
            if op == 'put':
                if k in d:
                    return False
                d[k] = v
                return True
            if op == 'pin':
                d[k] = v
                return True
            if op == 'rem':
                return d.pop(k, None) is not None
            return d.get(k)
        if op == 'add':
            if self.kind == 'ioset' and v in d.get(k, []):
                return False
            d.setdefault(k, []).append(v)
            return True
        if op == 'put2':       # put([v, w, v])
            added = False
            for x in (v, w, v):
                if self.kind == 'ioset' and x in d.get(k, []):
                    continue
                d.setdefault(k, []).append(x)
                added = True
            return added
        if op in ('pin1', 'pin2'):
            vals = [v] if op == 'pin1' else [v, v, w]
            if self.kind == 'ioset':
                vals = list(dict.fromkeys(vals))
            d[k] = list(vals)
            return True
        if op == 'pop':
            if d.get(k):
                x = d[k].pop(0)
                if not d[k]:
                    del d[k]
                return x
            return None
        if op == 'rem':
            return d.pop(k, None) is not None
        if op == 'remval':
            if v in d.get(k, []):
                d[k].remove(v)
                if not d[k]:
                    del d[k]
                return True
            return False
        return list(d.get(k, []))


def do(s, kind, op, key, v):
    w = VALS[(VALS.index(v) + 1) % 3]
    if kind == 'plain':
        return {'put': lambda: s.put(key, v), 'pin': lambda: s.pin(key, v), 'rem': lambda: s.rem(key), 'get': lambda: s.get(key)}[op]()
    return {'add': lambda: s.add(key, v), 'put2': lambda: s.put(key, [v, w, v]), 'pin1': lambda: s.pin(key, [v]), 'pin2': lambda: s.pin(key, [v, v, w]),
            'pop': lambda: s.pop(key), 'rem': lambda: s.rem(key), 'remval': lambda: s.rem(key, v), 'get': lambda: s.get(key)}[op]()


def observe(s, kind, keys, model):
    """compare every read-only view with the model; returns text or None"""
    for key in keys:
        k = model.tokey(key)
        if kind == 'plain':
            got, exp = s.get(key), model.d.get(k)
            if got != exp:
                return 'get(%r) = %r, dictionary has %r' % (key, got, exp)
            continue
        exp = list(model.d.get(k, []))
        got = s.get(key)
        if got != exp:
            return 'get(%r) = %r, model has %r' % (key, got, exp)
        got = list(s.getIter(key))
        if got != exp:
            return 'getIter(%r) = %r, model has %r' % (key, got, exp)
        if s.cnt(key) != len(exp):
            return 'cnt(%r) = %r, model has %d' % (key, s.cnt(key), len(exp))
        gf, gl = s.getFirst(key), s.getLast(key)
        if gf != (exp[0] if exp else None) or gl != (exp[-1] if exp else None):
            return 'getFirst/getLast(%r) = %r/%r, model has %r' % (key, gf, gl, exp)
    # whole store, in key order
    got = [(k, v) for k, v in s.getItemIter()]
    if kind == 'plain':
        exp = [(s._tokeys(k), v) for k, v in sorted(model.d.items())]
    else:
        exp = [(s._tokeys(k), v) for k, vs in sorted(model.d.items()) for v in vs]
    if sorted(got) != sorted(exp):
        return 'iteration over the whole store gives %r, model has %r' % (got, exp)
    if s.cntAll() != len(exp):
        return 'cntAll() = %r, model has %d entries' % (s.cntAll(), len(exp))
    return None


def suffix_shaped(keys, tokey):
    ks = [tokey(k) for k in keys]
    return any(a != b and b.startswith(a + b'.') and len(b) == len(a) + 33 for a in ks for b in ks)


def harness(sym, part):
    kind = part['kind']
    k1, k2 = PAIRS[part['pair']]
    keys = [k1, k2, 'zz']
    try:
        db = sym.untraced(lambda: lmdbkit.make_subery(sym))
        cls = {'plain': during.Suber, 'io': during.IoSuber, 'ioset': during.IoSetSuber}[kind]
        s = sym.untraced(lambda: cls(db=db, subkey='x.'))
        model = Model(kind, s._tokey)
        hist = []
        tag = {'prefix': 'prefix-keys', 'prefix-2': 'prefix-keys', 'ionsep-mid-2': 'separator-in-key', 'ionsep-g': 'separator-in-key', 'ionsep': 'separator-in-key', 'ionsep-mid': 'separator-in-key', 'keysep': 'separator-in-key', 'tuple': 'tuple-key',
               'suffix-shaped': 'suffix-shaped-key', 'suffix-shaped-2': 'suffix-shaped-key'}.get(part['pair'])
        if tag:
            sym.cover(tag)
        for i in range(part['nops']):
            op = part['first'] if i == 0 else sym.choice('op%d' % i, OPS[kind])
            # the first operation goes to the first key with the first value (the pair list holds both orders where order matters)
            key = keys[sym.cint('key%d' % i, 0, 1)] if (i or part.get('free_first')) else keys[0]
            v = VALS[sym.cint('val%d' % i, 0, 1)] if (i or part.get('free_first')) else VALS[0]
            hist.append((op, key, v))

            def step():
                exp = model.apply(op, key, v)
                try:
                    got = do(s, kind, op, key, v)
                except Exception as ex:      # noqa
                    return 'raises', '%s(%r, %r) raised %r' % (op, key, v, ex)
                if got != exp:
                    return 'return-value', '%s(%r, %r) returned %r, model says %r' % (op, key, v, got, exp)
                try:
                    txt = observe(s, kind, keys, model)
                except Exception as ex:      # noqa
                    return 'raises', 'reading back after %s(%r, %r) raised %r' % (op, key, v, ex)
                return ('content', txt) if txt else None
            r = sym.untraced(step)
            if r is not None:
                what, txt = r
                shaped = suffix_shaped(keys[:2], s._tokey) and kind != 'plain'
                sig = '%s:%s%s' % (kind, what, ':key-equal-to-other-key-plus-separator-plus-32-hex' if shaped else '')
                return Failure(sig, 'after %r: %s' % (hist, txt))
            if op == 'pop' and not model.d.get(s._tokey(key)) and i and hist[i - 1][0] != 'pop':
                sym.cover('pop-empty')
            if op in ('put2', 'pin2') or (op == 'add' and i and hist[i - 1] == hist[i]):
                sym.cover('duplicate-value')
            if op == 'remval':
                sym.cover('remove-one-value')
            if op in ('pin', 'pin1', 'pin2') and i:
                sym.cover('overwrite')
            if len(model.d) == 2:
                sym.cover('interleaved-keys')
        return None
    finally:
        sym.untraced(lambda: lmdbkit.close_subery(sym, db) if 'db' in dir() else None)
        if getattr(sym, 'concrete', False):
            lmdbkit.cleanup()


MUTANTS = [
    ('getlast-single-step-back', 'hio/base/during.py',
     "                found = cursor.prev()\n\n            if ion is not None:",
     "                found = False\n\n            if ion is not None:"),
    ('remiovals-prefix-match', 'hio/base/during.py',
     "                    ckey, cion = self.unsuffix(iokey, sep=sep)\n                    if ckey != key:  # past key\n                        break",
     "                    ckey, cion = self.unsuffix(iokey, sep=sep)\n                    if not ckey.startswith(key):  # past key\n                        break"),
    ('addioval-counts-instead-of-last-ordinal', 'hio/base/during.py',
     "                    if ckey == key:  # found one\n                        ion = cion + 1  # next ion is increment of found cion\n                    else:  # prev entry if any was the last entry for key\n                        break  # done\n\n            iokey = self.suffix(key, ion, sep=sep)  # ion is 1 after last",
     "                    if ckey == key:  # found one\n                        ion = ion + 1\n                    else:  # prev entry if any was the last entry for key\n                        break  # done\n\n            iokey = self.suffix(key, ion, sep=sep)  # ion is 1 after last"),
    ('putval-overwrites', 'hio/base/during.py',
     "                return (txn.put(key, val, overwrite=False))",
     "                return (txn.put(key, val, overwrite=True))"),
]
