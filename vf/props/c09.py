"""C09 — TCP/TLS byte streams are delivered exactly, in order, under partial I/O"""
import errno
import ssl

from vf.engine.base import Failure
from vf.stubs import fakenet
from hio.core.tcp import clienting, serving
from hio.core import wiring

ID = 'C09'
EXPLANATION = ("Real Client/ClientTls/Remoter/RemoterTls send, serviceSends, tx, receive and serviceReceives over FakeNet sockets. "
               "(1) inductive steps with FULLY SYMBOLIC buffers: pre-state txbs = symbolic bytearray (any contents, len <= bound), what the "
               "peer already has is arbitrary; one serviceSends() where the kernel accepts a symbolic count 0..len or raises "
               "EAGAIN/EWOULDBLOCK (plain) or SSLWantRead/SSLWantWrite (TLS): peer bytes + remaining txbs == before, peer gained "
               "exactly txbs[:count], the wire log gained exactly those bytes; one tx(data) with symbolic data; one serviceReceives() "
               "with the kernel delivering a symbolic byte string cut into <= 3 recv results (each also cut to the buffer size) "
               "followed by would-block: rxbs gained exactly the delivered bytes in order, wire log too. Prefix-exactness is an "
               "invariant of every step => holds for histories of any length; with a kernel accepting >= 1 byte per call len(txbs) "
               "strictly decreases (liveness). (2) bounded end-to-end runs through the public API with the REAL WireLog (memory mode): "
               "2 payloads, interleaved tx/service calls with solver-chosen acceptance counts, both directions.")
FUNCTIONS = [('hio.core.tcp.clienting', 'Client.send'), ('hio.core.tcp.clienting', 'Client.serviceSends'), ('hio.core.tcp.clienting', 'Client.tx'),
             ('hio.core.tcp.clienting', 'Client.receive'), ('hio.core.tcp.clienting', 'Client.serviceReceives'),
             ('hio.core.tcp.clienting', 'ClientTls.send'), ('hio.core.tcp.clienting', 'ClientTls.receive'),
             ('hio.core.tcp.serving', 'Remoter.send'), ('hio.core.tcp.serving', 'Remoter.serviceSends'), ('hio.core.tcp.serving', 'Remoter.tx'),
             ('hio.core.tcp.serving', 'Remoter.receive'), ('hio.core.tcp.serving', 'Remoter.serviceReceives'),
             ('hio.core.tcp.serving', 'RemoterTls.send'), ('hio.core.tcp.serving', 'RemoterTls.receive'),
             ('hio.core.wiring', 'WireLog.writeTx'), ('hio.core.wiring', 'WireLog.writeRx')]
BOUNDS = {'quick': dict(buf=4, rx=4, e2e_calls=3, budget_s=120, audit_max=6), 'thorough': dict(buf=5, rx=5, e2e_calls=5, budget_s=900, audit_max=20)}
OUTSIDE = ['buffers longer than the bound in one step (histories are unbounded by induction)', 'real kernel sockets / real OpenSSL (FakeNet contract)',
           'connection-level faults (C10)', 'the WireLog file mode']
STUBS = ['FakeNet sockets (vf/stubs/fakenet.py): send accepts a symbolic count or raises would-block; recv returns scripted chunks cut to the requested size',
         'recording wire log (writeTx/writeRx) in the fully symbolic steps; the REAL WireLog (memory buffers) in the end-to-end form',
         'FakeCtx.wrap_socket for the TLS classes']
ASSUMPTIONS = ['a kernel send() never reports more bytes than offered and a recv(n) never returns more than n (POSIX)']
REQUIRED_TAGS = ['partial-send', 'eagain-send', 'want-write', 'short-recv', 'empty-payload', 'wirelog-partial', 'full-send', 'zero-accepted', 'recv-cut-to-buffer-size']
RULE = 'tags: partial/zero/full kernel acceptance, EAGAIN and TLS want-read/want-write, short reads, empty payloads, wire log under partial sends'
CLASSES = ['Client', 'ClientTls', 'Remoter', 'RemoterTls']


def partitions(tier):
    b = BOUNDS[tier]
    ps = []
    for c in CLASSES:
        ps.append(dict(name='%s-send-step' % c, cls=c, form='send', buf=b['buf']))
        ps.append(dict(name='%s-tx-step' % c, cls=c, form='tx', buf=b['buf'] - 1))
        ps.append(dict(name='%s-recv-step' % c, cls=c, form='recv', buf=b['rx']))
        ps.append(dict(name='%s-e2e' % c, cls=c, form='e2e', calls=b['e2e_calls']))
    return ps


class RecWL:
    """recording wire log for the fully symbolic steps"""
    def __init__(self):
        self.tx = b''
        self.rx = b''

    def writeTx(self, data, who=b''):
        self.tx = self.tx + bytes(data)

    def writeRx(self, data, who=b''):
        self.rx = self.rx + bytes(data)


def endpoint(cls, net, wl, txbs=None, bs=8096):
    sock = fakenet.FakeSock(net, peer=('127.0.0.1', 5000))
    net.opened.add(sock)
    if cls == 'Client':
        e = clienting.Client(ha=('127.0.0.1', 6101), txbs=txbs, wl=wl, bs=bs)
        e.cs = sock
        e.accepted = True
    elif cls == 'ClientTls':
        e = clienting.ClientTls(ha=('127.0.0.1', 6101), txbs=txbs, wl=wl, bs=bs, context=fakenet.FakeCtx(), hostify=False)
        e.cs = fakenet.FakeTLSSock(sock)
        e.accepted = True
        e.connected = True
    elif cls == 'Remoter':
        e = serving.Remoter(ha=('127.0.0.1', 6101), ca=('127.0.0.1', 5000), cs=sock, wl=wl, bs=bs)
        if txbs is not None:
            e.txbs = txbs
    else:
        e = serving.RemoterTls(ha=('127.0.0.1', 6101), ca=('127.0.0.1', 5000), cs=sock, wl=wl, bs=bs, context=fakenet.FakeCtx())
        e.connected = True
        if txbs is not None:
            e.txbs = txbs
    return e, e.cs


def would_block(cls, sym, name):
    tls = cls.endswith('Tls')
    k = sym.cint(name, 0, 1)
    if tls:
        sym.cover('want-write')
        return (ssl.SSLWantWriteError(ssl.SSL_ERROR_WANT_WRITE, 'w') if k else ssl.SSLWantReadError(ssl.SSL_ERROR_WANT_READ, 'r'))
    sym.cover('eagain-send')
    return OSError(errno.EWOULDBLOCK if k else errno.EAGAIN, 'again')


def harness_send(sym, part):
    cls = part['cls']
    net = fakenet.FakeNet()
    pre = sym.bytearray('txbs', part['buf'])
    T = bytes(pre)
    wl = RecWL()
    e, sock = endpoint(cls, net, wl, txbs=bytearray(pre))
    mode = sym.cint('mode', 0, 1)
    offered = []

    def policy(s, data):
        offered.append(bytes(data))
        if mode == 1:
            raise would_block(cls, sym, 'wb_kind')
        c = sym.int('count', 0, part['buf'])
        sym.assume(c <= len(data))
        return c
    sock.on_send = policy
    e.serviceSends()
    wire, left = bytes(sock.wire), bytes(e.txbs)
    if len(T) == 0:
        sym.cover('empty-payload')
        if offered:
            return Failure('%s:send:empty-buffer-offered' % cls, 'send called with nothing queued')
    if wire + left != T:
        return Failure('%s:send:stream-not-prefix-exact' % cls, lambda: 'queued %r; peer has %r, still queued %r' % (T, wire, left))
    if wl.tx != wire:
        return Failure('%s:send:wirelog-differs-from-bytes-sent' % cls, lambda: 'peer received %r, wire log recorded %r' % (wire, wl.tx))
    if len(offered) > 1:
        return Failure('%s:send:more-than-one-send-per-service' % cls, 'serviceSends made several send calls')
    if offered and offered[0] != T:
        return Failure('%s:send:offered-not-queue' % cls, lambda: 'kernel was offered %r, queue was %r' % (offered[0], T))
    if mode == 0 and len(T):
        sym.cover_if('partial-send', len(wire) > 0, len(wire) < len(T))
        sym.cover_if('wirelog-partial', len(wire) > 0, len(wire) < len(T))
        sym.cover_if('zero-accepted', len(wire) == 0)
        sym.cover_if('full-send', len(wire) == len(T))
    return None


def harness_tx(sym, part):
    cls = part['cls']
    net = fakenet.FakeNet()
    pre = sym.bytearray('txbs', part['buf'])
    data = sym.bytes('data', part['buf'])
    T = bytes(pre)
    D = bytes(data)
    e, sock = endpoint(cls, net, RecWL(), txbs=bytearray(pre))
    e.tx(data)
    if bytes(e.txbs) != T + D:
        return Failure('%s:tx:queue' % cls, lambda: 'queue %r after tx(%r) on %r' % (bytes(e.txbs), D, T))
    if len(D) == 0:
        sym.cover('empty-payload')
    if sock.sends:
        return Failure('%s:tx:sends-immediately' % cls, 'tx() touched the socket')
    return None


def harness_recv(sym, part):
    cls = part['cls']
    net = fakenet.FakeNet()
    wl = RecWL()
    bs = sym.cint('bs', 1, 3)                 # small receive buffer: recv results are cut to it
    e, sock = endpoint(cls, net, wl, bs=bs)
    pre = sym.bytes('rxbs', 2)
    e.rxbs.extend(pre)
    P = bytes(pre)
    stream = sym.bytes('stream', part['buf'])
    S = bytes(stream)
    n = len(S)
    c1 = sym.int('cut1', 0, part['buf'])
    c2 = sym.int('cut2', 0, part['buf'])
    sym.assume(c1 <= c2)
    sym.assume(c2 <= n)
    chunks = [x for x in (S[:c1], S[c1:c2], S[c2:]) if len(x)]
    end = sym.cint('end', 0, 1)               # 0: would-block after the data, 1: peer closed (EOF)
    sock.inq = list(chunks) + (['eof'] if end else [])
    e.serviceReceives()
    got = bytes(e.rxbs)
    if got != P + S:
        return Failure('%s:recv:stream' % cls, lambda: 'kernel delivered %r in chunks %r; rxbs %r (had %r)' % (S, chunks, got, P))
    if wl.rx != S:
        return Failure('%s:recv:wirelog' % cls, lambda: 'delivered %r, wire log recorded %r' % (S, wl.rx))
    if end and not e.cutoff:
        return Failure('%s:recv:eof-not-cutoff' % cls, 'peer closed but cutoff not set')
    if not end and e.cutoff:
        return Failure('%s:recv:spurious-cutoff' % cls, 'cutoff set on a healthy connection')
    if len(chunks) > 1:
        sym.cover('short-recv')
    if any(len(x) > bs for x in chunks):
        sym.cover('recv-cut-to-buffer-size')
    if n == 0:
        sym.cover('empty-payload')
    return None


P1, P2 = b'hello', b'wOrLd!'


def harness_e2e(sym, part):
    """public API only, concrete payloads, real WireLog in memory mode, solver-chosen acceptance counts"""
    cls = part['cls']
    net = fakenet.FakeNet()
    wl = wiring.WireLog(samed=False, filed=False, fmt=b'%(data)b')
    wl.reopen()
    try:
        e, sock = endpoint(cls, net, wl)
        total = b''
        plan = [P1, None, P2, None] + [None] * (part['calls'] - 2)
        i = 0

        def policy(s, data):
            k = sym.cint('acc%d' % s.sends, 0, 3)      # 0: would-block, 1: one byte, 2: about half, 3: everything
            if k == 0:
                tls = cls.endswith('Tls')
                sym.cover('want-write' if tls else 'eagain-send')
                if tls:      # which of the two TLS would-block kinds is solver-chosen (want-read while peer data is readable matters)
                    if sym.cbool('want_read%d' % s.sends):
                        sym.cover_if('want-read-with-data-readable', len(s.inq) > 0)
                        raise ssl.SSLWantReadError(ssl.SSL_ERROR_WANT_READ, 'r')
                    raise ssl.SSLWantWriteError(ssl.SSL_ERROR_WANT_WRITE, 'w')
                raise OSError(errno.EWOULDBLOCK if s.sends % 2 else errno.EAGAIN, 'again')
            c = {1: 1, 2: max(1, len(data) // 2), 3: len(data)}[k]
            if c < len(data):
                sym.cover('partial-send')
                sym.cover('wirelog-partial')
            else:
                sym.cover('full-send')
            return c
        sock.on_send = policy
        incoming = b''
        for step in plan:
            if step is not None:
                e.tx(step)
                total += step
            else:
                if i <= 3 and sym.cbool('rx_at_%d' % i):      # peer data may become readable before either of the first two service passes
                    chunk = b'R%d' % i
                    sock.inq.append(chunk)
                    incoming += chunk
                if hasattr(e, 'service'):
                    e.serviceSends()
                    e.serviceReceives()
                else:
                    e.serviceSends()
                    e.serviceReceives()
            i += 1
            wire = bytes(sock.wire)
            if total[:len(wire)] != wire:
                return Failure('%s:e2e:peer-not-prefix' % cls, lambda: 'peer has %r, transmitted so far %r' % (wire, total))
            if wire + bytes(e.txbs) != total:
                return Failure('%s:e2e:lost-or-duplicated' % cls, lambda: 'peer %r + queue %r != transmitted %r' % (wire, bytes(e.txbs), total))
            if wl.readTx() != wire:
                return Failure('%s:e2e:wirelog-tx' % cls, 'wire log tx %r, peer has %r' % (wl.readTx(), wire))
            if bytes(e.rxbs) != incoming or wl.readRx() != incoming:
                return Failure('%s:e2e:rx' % cls, 'delivered %r, rxbs %r, wire log rx %r' % (incoming, bytes(e.rxbs), wl.readRx()))
        # liveness: a healthy kernel that accepts at least one byte per call drains the queue
        sock.on_send = lambda s, data: 1
        for _ in range(len(total) + 1):
            e.serviceSends()
        if bytes(sock.wire) != total or e.txbs:
            return Failure('%s:e2e:not-all-delivered' % cls, lambda: 'after draining, peer has %r of %r' % (bytes(sock.wire), total))
        if wl.readTx() != total:
            return Failure('%s:e2e:wirelog-tx-final' % cls, 'wire log tx %r expected %r' % (wl.readTx(), total))
    finally:
        wl.close()
    return None


def harness(sym, part):
    with fakenet.Patch(fakenet.FakeNet(), clienting, serving):
        return {'send': harness_send, 'tx': harness_tx, 'recv': harness_recv, 'e2e': harness_e2e}[part['form']](sym, part)


MUTANTS = [
    ('remoter-wirelog-whole-buffer', 'hio/core/tcp/serving.py', "                self.wl.writeTx(data[:count], self.ca)", "                self.wl.writeTx(data, self.ca)"),
    ('client-delete-one-more', 'hio/core/tcp/clienting.py', "            del self.txbs[:count]\n            break  # try again later", "            del self.txbs[:count + (1 if count == 2 else 0)]\n            break  # try again later"),
]
