"""C27 — name/address registry stays a one-to-one bijection (hio.help.naming.Namer)

Inductive step: ARBITRARY symbolic pre-state (two symbolic dicts that are exact inverses, no empty member),
one operation with arbitrary symbolic arguments, invariant re-established and "rejected/no-change leaves both
mappings unchanged".  Names and addresses are opaque tokens modelled as symbolic ints, 0 standing for the
empty string / None: Namer only tests equality, truthiness and dict membership, so the abstraction is exact.
Induction: the empty registry satisfies the invariant; every public mutator preserves it => it holds after
every history (state size bounded by BOUNDS.size, history length unbounded).
"""
from vf.engine.base import Failure
from hio.help import naming
from hio import hioing

ID = 'C27'
EXPLANATION = ("Inductive-step check of Namer: pre-state = two symbolic Dict[int,int] (z3 arrays) constrained to be exact "
               "inverses with non-empty members, size <= bound; one of add/rem/changeAddr/changeName/clear with symbolic "
               "token arguments (0 = empty/None) runs on the real code; z3 decides every membership/equality branch; "
               "asserted: mappings still exact inverses (hence injective), and a rejected (NamerError) or falsy-returning "
               "operation left both mappings equal to the pre-state; truthy result <=> documented effect. "
               "Plus bounded public-API histories from the empty registry (reachability cross-check of the invariant).")
FUNCTIONS = [('hio.help.naming', 'Namer.addNameAddr'), ('hio.help.naming', 'Namer.remNameAddr'),
             ('hio.help.naming', 'Namer.changeAddrAtName'), ('hio.help.naming', 'Namer.changeNameAtAddr'),
             ('hio.help.naming', 'Namer.clearAllNameAddr'), ('hio.help.naming', 'Namer.getAddr'),
             ('hio.help.naming', 'Namer.getName')]
BOUNDS = {'quick': dict(size=2, hist_ops=2, tokens=3, budget_s=120, audit_max=6),
          'thorough': dict(size=3, hist_ops=3, tokens=3, budget_s=900, audit_max=20)}
OUTSIDE = ['registries with more than `size` entries in the pre-state of the inductive step (token ints are unbounded)',
           'names/addresses that are unhashable or compare equal across types (tokens model str/None only)']
STUBS = []
ASSUMPTIONS = ['names and addresses are opaque: Namer uses only ==, truthiness and dict membership on them (checked by reading naming.py); '
               'int tokens with 0 for ""/None are therefore an exact abstraction',
               'CrossHair symbolic dict (ShellMutableMap) behaves as dict for get/in/del/setitem/iteration/len/==']
REQUIRED_TAGS = ['rejected', 'no-change', 'changed', 'conflict-other-entry', 'empty-arg']
OPS = ['add', 'rem', 'changeAddr', 'changeName', 'clear']
RULE = 'tags mark rejected / unchanged / changed outcomes and conflicts with another entry'


def partitions(tier):
    ps = [dict(name='step-' + op, form='step', op=op) for op in OPS]
    ps += [dict(name='hist-first-' + op, form='hist', first=op) for op in OPS[:4]]
    return ps


def inv2(a, b):
    if len(a) != len(b):
        return False
    for k, v in a.items():
        if not k or not v:
            return False
        if v not in b or b[v] != k:
            return False
    return True


def apply(n, op, name, addr, sym):
    """returns (changed, rejected)"""
    try:
        if op == 'add':
            return n.addNameAddr(name, addr), False
        if op == 'rem':
            return n.remNameAddr(name=name, addr=addr), False
        if op == 'changeAddr':
            return n.changeAddrAtName(name=name, addr=addr), False
        if op == 'changeName':
            return n.changeNameAtAddr(addr=addr, name=name), False
        n.clearAllNameAddr()
        return True, False
    except hioing.NamerError:
        return False, True


def check_step(n, op, name, addr, a0, b0, changed, rejected, sym, where):
    a, b = n._addrByName, n._nameByAddr
    if not inv2(a, b):
        return Failure('%s:%s:not-inverse' % (where, op), 'after %s(name=%r, addr=%r) from %r/%r: %r / %r' % (op, name, addr, a0, b0, dict(a), dict(b)))
    if rejected:
        sym.cover('rejected')
    if not name or not addr:
        sym.cover('empty-arg')
    if not changed:
        if not rejected:
            sym.cover('no-change')
        if dict(a) != a0 or dict(b) != b0:
            return Failure('%s:%s:%s-but-mutated' % (where, op, 'rejected' if rejected else 'nochange'),
                           '%s(name=%r, addr=%r) from %r/%r reported %s but left %r / %r' % (
                               op, name, addr, a0, b0, 'NamerError' if rejected else 'no change', dict(a), dict(b)))
    else:
        sym.cover('changed')
        # documented effect of a truthy result
        exp = dict(a0)
        if op == 'add':
            exp[name] = addr
        elif op == 'rem':
            k = name if name else b0.get(addr)
            exp.pop(k, None)
        elif op == 'changeAddr':
            exp[name] = addr
        elif op == 'changeName':
            old = b0.get(addr)
            exp.pop(old, None)
            exp[name] = addr
        else:
            exp = {}
        if dict(a) != exp:
            return Failure('%s:%s:wrong-effect' % (where, op), '%s(name=%r, addr=%r) from %r gave %r expected %r' % (op, name, addr, a0, dict(a), exp))
    # getters agree with the mappings
    if name and n.getAddr(name) != a.get(name):
        return Failure('%s:%s:getAddr' % (where, op), 'getAddr disagrees')
    if addr and n.getName(addr) != b.get(addr):
        return Failure('%s:%s:getName' % (where, op), 'getName disagrees')
    return None


def harness(sym, part):
    tier_size = part.get('size')
    if part['form'] == 'step':
        size = part.get('size', 2)
        a = sym.dict_int_int('addrByName', size)
        b = sym.dict_int_int('nameByAddr', size)
        sym.assume(len(a) == size)
        sym.assume(inv2(a, b))
        name = sym.int('name', 0, 10 ** 6)
        addr = sym.int('addr', 0, 10 ** 6)
        n = naming.Namer()
        n._addrByName = a.copy()       # symbolic copies: the registered inputs stay in their pre-state
        n._nameByAddr = b.copy()
        a0, b0 = dict(a), dict(b)
        op = part['op']
        if (name and name in a0 and a0[name] != addr) or (addr and addr in b0 and b0[addr] != name):
            sym.cover('conflict-other-entry')
        changed, rejected = apply(n, op, name, addr, sym)
        return check_step(n, op, name, addr, a0, b0, changed, rejected, sym, 'step')
    # bounded histories through the public API only, from the empty registry
    n = naming.Namer()
    k = part.get('ops', 3)
    T = part.get('tokens', 3)
    for i in range(k):
        op = part['first'] if i == 0 else sym.choice('op%d' % i, OPS)
        name = sym.int('name%d' % i, 0, T)
        addr = sym.int('addr%d' % i, 0, T)
        a0, b0 = dict(n._addrByName), dict(n._nameByAddr)
        if (name and name in a0 and a0[name] != addr) or (addr and addr in b0 and b0[addr] != name):
            sym.cover('conflict-other-entry')
        changed, rejected = apply(n, op, name, addr, sym)
        f = check_step(n, op, name, addr, a0, b0, changed, rejected, sym, 'hist')
        if f:
            return f
    return None


_parts = partitions


def partitions(tier):  # noqa: F811  (adds the tier's bounds to each partition)
    b = BOUNDS[tier]
    out = []
    for p in _parts(tier):
        p = dict(p)
        if p['form'] == 'step':
            for k in range(b['size'] + 1):
                out.append(dict(p, size=k, name='%s-size%d' % (p['name'], k)))
            continue
        else:
            p['ops'] = b['hist_ops']
            p['tokens'] = b['tokens']
        out.append(p)
    return out


MUTANTS = [
    ('changeAddr-keeps-old-inverse', 'hio/help/naming.py',
     "        del self._nameByAddr[oldAddr]\n", "        pass\n"),
    ('changeName-no-conflict-check', 'hio/help/naming.py',
     "        if name in self._addrByName:\n            raise  hioing.NamerError(f\"Conflicting entry for {name=}.\")\n",
     "        pass\n"),
]
