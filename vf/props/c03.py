"""C03 — virtual-time scheduling follows the documented cycle model (Doist.recur / Tymist.tick / DoDoer.recur)"""
from vf.engine.base import Failure
from vf.kits import sched
from hio.base import doing

ID = 'C03'
EXPLANATION = ("Real Doist (non-real-time) with scripted doers of all four kinds, flat and nested in tock-0 DoDoers, is entered "
               "and recur()'d for a bounded number of cycles with SYMBOLIC scheduler tock, start tyme, per-step yielded tocks "
               "(reals incl. 0/None, smaller/larger than the scheduler tock) and completion steps. Every retyme<=tyme comparison "
               "in hio is a z3 query. The full (doer, sent tyme, tymth() tyme) recur trace and the scheduler tyme after each "
               "cycle are compared (symbolically) with a reference model of the documented semantics: T_c = T_{c-1}+tock; due "
               "doers run at most once per cycle in enter order observing T_c; yield t>0 -> due += t (cumulative); 0/None -> next cycle.")
FUNCTIONS = [('hio.base.doing', 'Doist.recur'), ('hio.base.doing', 'Doist.enter'), ('hio.base.doing', 'Doist.exit'),
             ('hio.base.tyming', 'Tymist.tick'), ('hio.base.tyming', 'Tymist.tymen'),
             ('hio.base.doing', 'DoDoer.recur'), ('hio.base.doing', 'DoDoer.enter'), ('hio.base.doing', 'DoDoer.do'),
             ('hio.base.doing', 'Doer.do'), ('hio.base.doing', 'doify')]
BOUNDS = {'quick': dict(cycles=4, cycles3=4, max_doers=3, max_fin=3, max_fin3=3, simple_fin=2, simple_fin3=1, budget_s=150, audit_max=10),
          'thorough': dict(cycles=5, cycles3=4, max_doers=3, max_fin=4, max_fin3=3, simple_fin=2, simple_fin3=1, budget_s=1200, audit_max=40)}
OUTSIDE = ['IEEE-754 rounding (tymes are modelled as exact reals)', 'real-time mode (C07)', 'negative yielded tocks',
           'more than `cycles` cycles / 3 leaf doers / nesting depth > 2', 'more than one doer per run with a fully symbolic tock sequence (the others yield one symbolic tock value at every step, with symbolic completion step)', 'runtime extend/remove (C06)']
STUBS = []
ASSUMPTIONS = ['float arithmetic modelled as real arithmetic (z3 Real); NaN/inf excluded by range constraints',
               'scheduler tock in [1/64, 2], start tyme in [-4, 4], yielded tocks in [0, 4]']
REQUIRED_TAGS = ['tock-smaller-than-scheduler', 'tock-larger', 'zero-then-positive', 'none-yield', 'catch-up']
RULE = 'tags: yielded tock smaller/larger than scheduler tock, asap yield followed by positive yield, None yield, doer due several cycles in the past'

SHAPES = {
    'flat1': ['a'], 'flat2': ['a', 'b'], 'flat3': ['a', 'b', 'c'],
    'nestL': [['a', 'b'], 'c'], 'nestR': ['a', ['b', 'c']], 'nest2': [[['a'], 'b'], 'c'], 'nest1': [['a']],
}
KINDSETS = {'k0': {'a': 'plain', 'b': 'gen', 'c': 'func'}, 'k1': {'a': 'gen', 'b': 'meth', 'c': 'plain'},
            'k2': {'a': 'func', 'b': 'plain', 'c': 'gen'}, 'k3': {'a': 'meth', 'b': 'func', 'c': 'meth'}}


def partitions(tier):
    b = BOUNDS[tier]
    ps = []
    for j, sh in enumerate(SHAPES):
        n3 = len(sched.leaves(SHAPES[sh])) >= 3
        for ks in ((('k0', 'k1')[j % 2],) if (tier == 'quick' and n3) else ('k0', 'k1') if tier == 'quick' else KINDSETS):
            for rich in sched.leaves(SHAPES[sh]):
                n = len(sched.leaves(SHAPES[sh]))
                ps.append(dict(name='%s-%s-rich_%s' % (sh, ks, rich), shape=sh, kinds=ks, cycles=b['cycles3'] if n >= 3 else b['cycles'],
                               max_fin=b['max_fin3'] if n >= 3 else b['max_fin'], rich=rich,
                               simple_fin=b['simple_fin3'] if n >= 3 else b['simple_fin']))
    return ps


def setup(sym, part):
    shape = SHAPES[part['shape']]
    kinds = KINDSETS[part['kinds']]
    names = sched.leaves(shape)
    tock = sym.real('tock', 1 / 64, 2)
    start = sym.real('start', -4, 4)
    w = sched.World()
    scripts = {}
    for n in names:
        if n == part['rich']:     # fully symbolic tock sequence
            fin = sym.int('fin_' + n, 0, part['max_fin'])
            tocks = [sym.real('t_%s%d' % (n, i), 0, 4) for i in range(part['max_fin'])]
        else:                     # constant-rate doer: one symbolic tock value yielded at every step
            fin = sym.int('fin_' + n, 0, part['simple_fin'])
            t = sym.real('t_%s' % n, 0, 4)
            tocks = [t] * part['simple_fin']
        sc = sched.Script(n, fin=fin, ret=True, tocks=tocks)
        if kinds[n] != 'plain' and n == 'b':
            # this doer yields None instead of 0.0 for asap (only generator kinds can)
            sc.tocks = [NoneIfZero(t) for t in tocks]
        scripts[n] = sc
    top, parents = sched.build(w, shape, scripts, kinds)
    doist = doing.Doist(tock=tock, tyme=start, real=False, doers=top)
    return shape, names, tock, start, w, scripts, parents, doist


def run(sym, part, model_cls):
    """runs the real Doist cycle by cycle next to a model; stops at the first divergence.
    returns None or (description)"""
    shape, names, tock, start, w, scripts, parents, doist = setup(sym, part)
    inside = [n for n in names if parents[n] is not None]
    model = model_cls(start, tock, names, scripts, inside)
    doist.enter()
    T = start
    bad = None
    for c in range(part['cycles']):
        k0, m0 = len(w.trace), len(model.events)
        doist.recur()
        model.cycle()
        T = T + tock
        got = [(n, t[0], t[1]) for (n, e, t) in w.trace[k0:] if e == 'recur']
        exp = [(n, TT, TT) for (n, TT) in model.events[m0:]]
        if doist.tyme != T:
            bad = 'tyme', (lambda c=c, a=doist.tyme, b=T: 'cycle %d: scheduler tyme %r expected %r' % (c, a, b))
            break
        if got != exp:
            bad = 'trace', (lambda c=c, got=got, exp=exp: 'cycle %d: recur steps (doer, sent tyme, tymth()) %r expected %r' % (c, got, exp))
            break
    doist.exit()
    return bad, (names, tock, start, scripts)


def classify(part, inputs):
    """concrete: is the deviation exactly the known DoDoer asap-rerun defect?"""
    from vf.engine.base import ConcreteSym
    nested = any(isinstance(x, list) for x in SHAPES[part['shape']])
    cls = 'nested' if nested else 'flat'
    bad, _ = run(ConcreteSym(inputs), part, FlatModel)
    if bad is None:
        return cls + ':not-reproducible-concretely'
    if bad[0] == 'tyme':
        return cls + ':tyme-advance'
    if nested:
        bad2, _ = run(ConcreteSym(inputs), part, DefectModel)
        if bad2 is None:
            return 'nested:asap-rerun-in-DoDoer-uses-own-tock-0'
    return cls + ':trace-differs-from-cycle-model'


def harness(sym, part):
    bad, (names, tock, start, scripts) = run(sym, part, FlatModel)
    # coverage tags without forking: one satisfiability query each
    for n in names:
        sc = scripts[n]
        ts = [unwrap(t) for t in sc.tocks]
        for i in range(len(ts)):
            live = (sc.fin > i)
            sym.cover_if('tock-smaller-than-scheduler', live, ts[i] > 0, ts[i] < tock)
            sym.cover_if('tock-larger', live, ts[i] > tock)
            if i + 1 < len(ts):
                sym.cover_if('zero-then-positive', sc.fin > i + 1, ts[i] == 0, ts[i + 1] > 0)
            if isinstance(sc.tocks[i], NoneIfZero):
                sym.cover_if('none-yield', live, ts[i] == 0)
            sym.cover_if('catch-up', live, ts[i] > 0, ts[i] * 2 < tock)
    if bad is not None:
        return Failure('unclassified', lambda: '%s; tock=%r start=%r scripts(fin, tocks)=%r' % (
            bad[1](), tock, start, {n: (scripts[n].fin, [unwrap(t) for t in scripts[n].tocks]) for n in names}),
            classify=classify)
    return None


class FlatModel(sched.Model):
    def __init__(self, start, tock, order, scripts, inside):
        super().__init__(start, tock, order, scripts)


class NoneIfZero:
    """a yielded tock that is None when its value is 0 (asap by empty yield)"""
    def __init__(self, v):
        self.v = v


def unwrap(t):
    return t.v if isinstance(t, NoneIfZero) else t


_orig_tock_after = sched.Script.tock_after


def _tock_after(self, step):
    t = _orig_tock_after(self, step)
    if isinstance(t, NoneIfZero):
        return None if t.v == 0 else t.v
    return t


sched.Script.tock_after = _tock_after


class DefectModel(sched.Model):
    """the cycle model with the known DoDoer.recur deviation: a leaf inside a tock-0 DoDoer that yields
    asap is rescheduled at T + 0 instead of T + scheduler tock"""
    def __init__(self, start, tock, order, scripts, inside):
        super().__init__(start, tock, order, scripts)
        self.inside = set(inside)

    def cycle(self):
        for n in self.order:
            if self.alive[n] and self.due[n] <= self.T:
                self.events.append((n, self.T))
                sc = self.s[n]
                i = self.step[n]
                self.step[n] += 1
                if i >= sc.fin:
                    self.alive[n] = False
                else:
                    t = sc.tock_after(i)
                    if not t:
                        self.due[n] = self.T + (0 if n in self.inside else self.tock)
                    else:
                        self.due[n] = self.due[n] + t
        self.T = self.T + self.tock


MUTANTS = [
    ('retyme-not-cumulative', 'hio/base/doing.py',
     "                    else:\n                        retyme += tock  # cumulative retyme of doer tock\n                    deeds.append((dog, retyme, doer))  # reappend for next run through\n            else:  # not retyme yet\n                deeds.append((dog, retyme, doer))  # reappend for next pass\n",
     "                    else:\n                        retyme = self.tyme + tock\n                    deeds.append((dog, retyme, doer))  # reappend for next run through\n            else:  # not retyme yet\n                deeds.append((dog, retyme, doer))  # reappend for next pass\n"),
    ('strict-due-compare', 'hio/base/doing.py',
     "            if retyme <= self.tyme:  # run it now", "            if retyme < self.tyme or retyme == self.tyme == 0.0:  # run it now"),
]
