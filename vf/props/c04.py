"""C04 — nesting doers inside a tock-0 DoDoer is observationally transparent"""
from vf.engine.base import Failure, ConcreteSym
from vf.kits import sched
from vf.props import c05, c03
from hio.base import doing

ID = 'C04'
EXPLANATION = ("Differential harness on the real code: the same symbolic leaf scripts (yielded tocks, completion steps, return values; "
               "symbolic scheduler tock, start tyme, optional limit) are run twice - listed flat in a Doist, and regrouped into tock-0 "
               "DoDoers (every bracketing of consecutive leaves, depth <= 2) - and the leaf-level observables are compared symbolically: "
               "enter order, (doer, tyme) recur sequence, clean/cease/exit events and their order (forced exits), number of cycles, final "
               "tyme, Doist.done and leaf done flags. Runs end by completion or limit (no raised faults, as the property states).")
FUNCTIONS = [('hio.base.doing', 'DoDoer.do'), ('hio.base.doing', 'DoDoer.enter'), ('hio.base.doing', 'DoDoer.recur'),
             ('hio.base.doing', 'DoDoer.exit'), ('hio.base.doing', 'Doist.do'), ('hio.base.doing', 'Doist.recur'),
             ('hio.base.doing', 'Doist.enter'), ('hio.base.doing', 'Doist.exit'), ('hio.base.tyming', 'Tymee.wind')]
BOUNDS = {'quick': dict(max_fin=2, simple_fin=1, max_cycles=8, leaves=3, budget_s=150, audit_max=10),
          'thorough': dict(max_fin=2, simple_fin=1, max_cycles=8, leaves=3, budget_s=1200, audit_max=40)}      # all 3-leaf bracketings x limit x rich doer (quick runs every other one)
OUTSIDE = c05.OUTSIDE[:5] + ['DoDoer(always=True)', 'DoDoers with non-zero tock', 'raised faults / runtime extend-remove (C01, C02, C06)']
STUBS = []
ASSUMPTIONS = c05.ASSUMPTIONS
REQUIRED_TAGS = ['zero-then-positive', 'limit-stop', 'completion', 'depth-2']
RULE = 'tags: asap yield followed by a positive yield inside a group, runs cut by the limit, runs to completion, depth-2 nesting'

GROUPINGS = {
    2: {'g_ab': [['a', 'b']], 'g_a': [['a'], 'b'], 'g_b': ['a', ['b']]},
    3: {'g_ab_c': [['a', 'b'], 'c'], 'g_a_bc': ['a', ['b', 'c']], 'g_abc': [['a', 'b', 'c']], 'g_a2b_c': [[['a'], 'b'], 'c'],
        'g_a_b2c': ['a', ['b', ['c']]], 'g_a_b_c': [['a'], ['b'], ['c']]},
    4: {'g_ab_cd': [['a', 'b'], ['c', 'd']], 'g_a_bc_d': ['a', ['b', 'c'], 'd'], 'g_ab2c_d': [[['a', 'b'], 'c'], 'd'], 'g_abcd': [['a', 'b', 'c', 'd']]},
}
KINDSETS = {'k0': {'a': 'plain', 'b': 'gen', 'c': 'func', 'd': 'meth'}, 'k1': {'a': 'gen', 'b': 'meth', 'c': 'plain', 'd': 'func'},
            'k2': {'a': 'func', 'b': 'plain', 'c': 'gen', 'd': 'gen'}, 'k3': {'a': 'meth', 'b': 'func', 'c': 'meth', 'd': 'plain'}}


def partitions(tier):
    b = BOUNDS[tier]
    ps = []
    j = 0
    for n in range(2, b['leaves'] + 1):
        names = 'abcd'[:n]
        for g in GROUPINGS[n]:
            for lim in ('nolimit', 'limit'):
                for rich in names:
                    j += 1
                    if tier == 'quick' and n == 3 and ((j % 2) or g in ('g_a_b2c', 'g_a_b_c')):
                        continue
                    ps.append(dict(name='%s-%s-rich_%s' % (g, lim, rich), n=n, grouping=g, lim=lim, rich=rich, kinds='k%d' % (j % 4),
                                   max_fin=b['max_fin'], simple_fin=b['simple_fin'], max_cycles=b['max_cycles']))
    return ps


def depth(shape):
    return 1 + max([depth(x) for x in shape if isinstance(x, list)] + [0]) if any(isinstance(x, list) for x in shape) else 0


def run_once(rec, part, shape):
    names = list('abcd'[:part['n']])
    kinds = KINDSETS[part['kinds']]
    tock = rec.real('tock', 1 / 64, 2)
    start = rec.real('start', -4, 4)
    L = None
    if part['lim'] == 'limit':
        L = rec.real('limit', 1 / 64, 8)
        rec.constrain(L <= tock * 4)
    w = sched.World()
    scripts = {}
    for n in names:
        if n == part['rich']:
            fin = rec.int('fin_' + n, 0, part['max_fin'])
            tocks = [rec.real('t_%s%d' % (n, i), 0, 4) for i in range(part['max_fin'])]
            for t in tocks:
                rec.constrain(t <= tock * 2)
            ret = True if kinds[n] == 'plain' else rec.choice('ret_' + n, (True, False, None))
        else:
            fin = rec.int('fin_' + n, 0, part['simple_fin'])
            t = rec.real('t_' + n, 0, 4)
            rec.constrain(t <= tock * 2)
            tocks = [t] * part['simple_fin']
            ret = True
        scripts[n] = sched.Script(n, fin=fin, ret=ret, tocks=tocks)
    top, parents = sched.build(w, shape, scripts, kinds)
    doist = doing.Doist(tock=tock, tyme=start, real=False, doers=top)
    orig = doist.recur
    count = [0]

    def counted(deeds=None):
        count[0] += 1
        if count[0] > part['max_cycles'] + 3:
            raise c05.Overrun()
        w.ev('*', 'cycle', count[0])
        return orig(deeds)
    doist.recur = counted
    over = False
    try:
        doist.do(limit=L) if L is not None else doist.do()
    except c05.Overrun:
        over = True
    leaf = [(n, e, t) for (n, e, t) in w.trace if n in names or n == '*']
    obs = dict(trace=leaf, cycles=count[0], tyme=doist.tyme, done=doist.done,
               flags=tuple(sched.done_of(w.doers[n]) for n in names), over=over)
    return obs, dict(names=names, tock=tock, start=start, L=L, scripts=scripts, parents=parents)


def compare(a, b):
    for k, label in (('cycles', 'completion cycle'), ('done', 'Doist.done'), ('tyme', 'final tyme'), ('flags', 'leaf done flags'), ('trace', 'leaf event trace')):
        if a[k] != b[k]:
            return k, label
    return None


def classify(part, inputs):
    """concrete: is the difference exactly the known DoDoer asap-rerun defect (C03 known finding)?"""
    shape = GROUPINGS[part['n']][part['grouping']]
    rec = sched.Recorder(ConcreteSym(inputs))
    a, info = run_once(rec, part, list('abcd'[:part['n']]))
    b, info2 = run_once(rec, part, shape)
    d = compare(a, b)
    if d is None:
        return 'not-reproducible-concretely'
    names = info['names']
    inside = [n for n in names if info2['parents'][n] is not None]

    def model_events(cls, ncycles):
        m = cls(info['start'], info['tock'], names, info['scripts'], inside)
        for c in range(ncycles):
            m.cycle()
        return [(n, T) for (n, T) in m.events]
    ra = [(n, t[0]) for (n, e, t) in a['trace'] if e == 'recur']
    rb = [(n, t[0]) for (n, e, t) in b['trace'] if e == 'recur']
    # known only when the two runs really schedule differently and each follows its model exactly; a difference with
    # identical recur sequences (e.g. forced-exit order, done flags) is never attributed to the known defect
    if ra != rb and ra == model_events(c03.FlatModel, a['cycles']) and rb == model_events(c03.DefectModel, b['cycles']):
        return 'nested-child-due-one-tock-early-after-asap-yield'
    return 'nesting-changes-%s' % d[0]


def harness(sym, part):
    shape = GROUPINGS[part['n']][part['grouping']]
    rec = sched.Recorder(sym)
    a, info = run_once(rec, part, list('abcd'[:part['n']]))
    b, info2 = run_once(rec, part, shape)
    if a['over'] and b['over']:
        sym.assume(False)
    if depth(shape) >= 2:
        sym.cover('depth-2')
    if a['done'] is True:
        sym.cover('completion')
    elif info['L'] is not None:
        sym.cover('limit-stop')
    for n in info['names']:
        sc = info['scripts'][n]
        if info2['parents'][n] is not None:
            for i in range(len(sc.tocks) - 1):
                sym.cover_if('zero-then-positive', sc.fin > i + 1, sc.tocks[i] == 0, sc.tocks[i + 1] > 0)
    d = compare(a, b)
    if d is not None:
        k, label = d
        return Failure('unclassified', lambda: '%s differs: flat %r vs grouped %s %r; tock=%r start=%r L=%r scripts(fin,tocks,ret)=%r' % (
            label, a[k], part['grouping'], b[k], info['tock'], info['start'], info['L'],
            {n: (info['scripts'][n].fin, info['scripts'][n].tocks, info['scripts'][n].ret) for n in info['names']}), classify=classify)
    return None


MUTANTS = [
    ('dodoer-exit-fifo', 'hio/base/doing.py',
     "        while(deeds):  # .close each remaining dog in deeds in reverse order\n            dog, retime, doer = deeds.pop()  # pop it off in reverse (right side)\n            if not dog:  # marker deed\n                continue  # skip marker\n            try:\n                done = dog.close()  # force GeneratorExit returns None if already closed or Gen Return value",
     "        while(deeds):  # .close each remaining dog in deeds in reverse order\n            dog, retime, doer = deeds.popleft()\n            if not dog:  # marker deed\n                continue  # skip marker\n            try:\n                done = dog.close()  # force GeneratorExit returns None if already closed or Gen Return value"),
]
