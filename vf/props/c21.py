"""C21 — memo transmission loses no gram under transport backpressure"""
import errno
from vf.engine.base import Failure
from hio.core.memo import memoing
from hio.core.udp import udping

ID = 'C21'
EXPLANATION = ("Real Memoer.gramit / _serviceOnceTxGrams / serviceTxGramsOnce / serviceTxGrams with the transport's send() replaced by a "
               "scripted one: per call it accepts a SYMBOLIC count 0..len of the offered bytes (0 = would-block), or raises an "
               "'unreachable destination' errno (solver-chosen). 2-3 queued grams of 1-3 bytes for two destinations (queued as bytes, and - own partitions - as ONE bytearray object "
               "queued for both destinations), a solver-chosen "
               "number of service calls of either kind under back-pressure, followed by calls with a fully accepting transport. Oracle: "
               "per destination the bytes the transport accepted are exactly the concatenation of the queued grams in queue order minus "
               "exactly the grams for which unreachable was reported, nothing duplicated, and after the accepting calls everything "
               "still queued has been sent (queue and partial buffer empty). A second form checks udping.Peer.send maps EAGAIN/ENOBUFS "
               "to 0 and re-raises other errnos for the symbolic errno.")
FUNCTIONS = [('hio.core.memo.memoing', 'Memoer._serviceOnceTxGrams'), ('hio.core.memo.memoing', 'Memoer.serviceTxGramsOnce'), ('hio.core.memo.memoing', 'Memoer.serviceTxGrams'),
             ('hio.core.memo.memoing', 'Memoer.gramit'), ('hio.core.udp.udping', 'Peer.send')]
BOUNDS = {'quick': dict(grams=2, calls=3, budget_s=150, audit_max=8), 'thorough': dict(grams=3, calls=3, budget_s=1500, audit_max=20)}
OUTSIDE = ['more grams / service calls under back-pressure than the bound', 'grams longer than 3 bytes', 'real sockets', 'the memo -> gram segmentation (C20)']
STUBS = ['scripted transport send(); FakeNet sendto for the udp Peer.send form']
ASSUMPTIONS = ['a transport send() never reports more bytes than offered']
REQUIRED_TAGS = ['same-bytearray-queued-twice', 'zero-accepted-fresh-gram', 'partial-accepted', 'unreachable-fresh-gram', 'unreachable-on-remainder', 'last-gram-partial', 'two-destinations']
RULE = 'tags: would-block on a freshly dequeued gram, partial acceptance, unreachable on a fresh gram and on a remainder, partial send of the last queued gram'
GRAMS = [b'abc', b'de', b'f']
DSTS = ['d1', 'd2', 'd1']


def partitions(tier):
    b = BOUNDS[tier]
    ps = []
    for n in range(1, b['grams'] + 1):
        for first in ('zero', 'partial', 'full', 'unreachable'):
            ps.append(dict(name='g%d-first-%s' % (n, first), form='tx', n=n, first=first, calls=b['calls']))
    for first in ('zero', 'partial', 'full', 'unreachable'):
        # the application queues ONE bytearray object for two destinations (fan-out): servicing must not consume the caller's object
        ps.append(dict(name='shared-g%d-first-%s' % (min(3, b['grams'] + 0), first), form='tx', n=min(3, b['grams'] + 0), first=first, calls=b['calls'], shared=True))
    ps.append(dict(name='udp-send-errno', form='udp'))
    return ps


class Tx(memoing.Memoer):
    def __init__(self, script, **kw):
        super().__init__(**kw)
        self.script = script
        self.accepted = []       # (dst, bytes) in order
        self.offers = []
        self.dropped = []

    def send(self, gram, dst, *, echoic=False):
        self.offers.append((dst, bytes(gram)))
        r = self.script(self, gram, dst)
        if isinstance(r, BaseException):
            self.dropped.append((dst, bytes(gram)))
            raise r
        self.accepted.append((dst, bytes(gram[:r])))
        return r


def harness_tx(sym, part):
    n = part['n']
    GRAMS = globals()['GRAMS'] if not part.get('shared') else [b'abc', b'abc', b'f']
    calls_made = [0]
    mode = ['pressure']
    saved = memoing.logger

    class NL:
        def __getattr__(self, k):
            return lambda *a, **kw: None
    memoing.logger = NL()
    try:
        def script(tx, gram, dst):
            i = calls_made[0]
            calls_made[0] += 1
            if mode[0] == 'open':
                return len(gram)
            kind = part['first'] if i == 0 else sym.choice('kind%d' % i, ['zero', 'partial', 'full', 'unreachable'])
            fresh = not any(d == dst and bytes(gram) != g and g.endswith(bytes(gram)) for (d, g) in tx.offers[:-1])
            if kind == 'zero':
                sym.cover('zero-accepted-fresh-gram' if tx.offers[-1][1] in GRAMS else 'zero-on-remainder')
                return 0
            if kind == 'unreachable':
                sym.cover('unreachable-fresh-gram' if tx.offers[-1][1] in GRAMS else 'unreachable-on-remainder')
                return OSError(sym.choice('errno%d' % i, [errno.ECONNREFUSED, errno.EHOSTUNREACH, errno.ENOENT]), 'unreachable')
            if kind == 'partial' and len(gram) > 1:
                c = sym.int('c%d' % i, 1, 3)
                sym.assume(c < len(gram))
                sym.cover('partial-accepted')
                if not tx.txgs:
                    sym.cover('last-gram-partial')
                return c
            return len(gram)
        tx = Tx(script, name='tx')
        tx.opened = True
        if part.get('shared'):
            shared = bytearray(GRAMS[0])
            objs = [shared, shared, bytearray(GRAMS[2])][:n]
            sym.cover('same-bytearray-queued-twice')
        else:
            objs = GRAMS[:n]
        for g, d in zip(objs, DSTS[:n]):
            tx.gramit(g, d)
        if n > 1:
            sym.cover('two-destinations')
        try:
            for k in range(part['calls']):
                if sym.cbool('all%d' % k):
                    tx.serviceTxGrams()
                else:
                    tx.serviceTxGramsOnce()
            mode[0] = 'open'
            for _ in range(3 * n + 4):
                tx.serviceTxGrams()
        except Exception as ex:     # noqa
            from vf.engine.symx_guard import guard
            guard(ex)
            return Failure('service-raises:%s' % type(ex).__name__, lambda ex=ex: 'transmit servicing raised %r; offers %r' % (ex, tx.offers))
        # expected per destination: grams in order minus those reported unreachable (a gram is dropped as a whole: what
        # was already accepted of it stays accepted, its remainder is discarded)
        for d in sorted(set(DSTS[:n])):
            queued = [g for g, dd in zip(GRAMS[:n], DSTS[:n]) if dd == d]
            got = b''.join(b for (dd, b) in tx.accepted if dd == d)
            exp = b''
            rest = got
            ok = True
            for g in queued:
                dropped_rem = [r for (dd, r) in tx.dropped if dd == d and g.endswith(r)]
                if dropped_rem:
                    part_sent = g[:len(g) - len(dropped_rem[0])]
                    exp += part_sent
                else:
                    exp += g
            if got != exp:
                lost = len(got) < len(exp)
                return Failure('stream:%s' % ('gram-bytes-lost' if lost else 'gram-bytes-duplicated-or-reordered'),
                               lambda d=d, got=got, exp=exp: 'destination %s: transport accepted %r, expected %r (queued %r, dropped %r, offers %r)' % (d, got, exp, queued, tx.dropped, tx.offers))
        if tx.txgs or tx.txbs[1] is not None:
            return Failure('liveness:grams-left-after-transport-accepts-everything', lambda: 'still queued %r, partial %r' % (list(tx.txgs), tx.txbs))
    finally:
        memoing.logger = saved
    return None


def harness_udp(sym, part):
    """udping.Peer.send: EAGAIN / EWOULDBLOCK / ENOBUFS -> 0 bytes sent, anything else re-raised"""
    e = sym.choice('errno', [errno.EAGAIN, errno.EWOULDBLOCK, errno.ENOBUFS, errno.ECONNREFUSED, errno.EHOSTUNREACH, errno.EMSGSIZE])

    class S:
        def sendto(self, data, dst):
            raise OSError(e, 'x')
    p = udping.Peer.__new__(udping.Peer)
    p.ls = S()
    p.name = 'p'
    p.ha = ('127.0.0.1', 1)
    p.wl = None
    p.opened = True
    sym.cover('zero-accepted-fresh-gram')
    saved = udping.logger

    class NL:
        def __getattr__(self, k):
            return lambda *a, **kw: None
    udping.logger = NL()
    try:
        try:
            cnt = p.send(b'abc', ('127.0.0.1', 2))
            raised = None
        except OSError as ex:
            cnt, raised = None, ex.errno
        if e in (errno.EAGAIN, errno.EWOULDBLOCK, errno.ENOBUFS):
            if cnt != 0:
                return Failure('udp:would-block-not-mapped-to-zero', lambda: 'errno %r gave cnt=%r raised=%r' % (e, cnt, raised))
        elif raised != e:
            return Failure('udp:errno-swallowed', lambda: 'errno %r gave cnt=%r raised=%r' % (e, cnt, raised))
    finally:
        udping.logger = saved
    return None


def harness(sym, part):
    return harness_tx(sym, part) if part['form'] == 'tx' else harness_udp(sym, part)


MUTANTS = [
    ('all-sent-test-after-delete', 'hio/core/memo/memoing.py', "            del gram[:cnt]  # remove from buffer those bytes sent\n            if not gram:  # all sent", "            del gram[:cnt]  # remove from buffer those bytes sent\n            if cnt >= len(gram):  # all sent"),
]
