"""C30 — running under asyncio gives the same schedule as the plain loop (Doist.ado vs Doist.do)"""
from vf.engine.base import Failure
from vf.kits import sched
from vf.props import c05
from hio.base import doing
from hio.help import timing

ID = 'C30'
EXPLANATION = ("Differential harness: two identically scripted forests (C03/C05 scripts: symbolic tock, start tyme, limit, yielded tocks, "
               "completion steps, returned values, optional raising doer, optional tyme=/limit= overrides incl. zero, optional second run "
               "on the same Doist) are run once with the blocking Doist.do() and once with the real `async def Doist.ado()` coroutine "
               "driven by hand (send(None) = what the event loop does after asyncio.sleep(0)). Compared: full event traces with tymes, "
               "final tyme, number of cycles, Doist.done, doer done flags, forced-exit order, and the exception raised.")
FUNCTIONS = [('hio.base.doing', 'Doist.ado'), ('hio.base.doing', 'Doist.do'), ('hio.base.doing', 'Doist.enter'),
             ('hio.base.doing', 'Doist.recur'), ('hio.base.doing', 'Doist.exit'), ('hio.help.timing', 'AsyncTimer.start'),
             ('hio.base.tyming', 'Tymer.expired')]
BOUNDS = {'quick': dict(max_fin=2, simple_fin=1, max_cycles=8, budget_s=150, audit_max=10),
          'thorough': dict(max_fin=3, simple_fin=2, max_cycles=12, budget_s=1500, audit_max=40)}
OUTSIDE = ['real-time mode under asyncio', 'other tasks sharing the event loop', 'IEEE-754 rounding'] + c05.OUTSIDE[3:5]
STUBS = ['FakeLoop: asyncio.get_event_loop().time() seen by hio.help.timing returns a constant; the ado() coroutine is resumed by hand '
         'with send(None) after each `await asyncio.sleep(0)`; validated per run against a real asyncio.run() on concrete inputs (replay)']
ASSUMPTIONS = c05.ASSUMPTIONS + ['the event loop resumes the task after asyncio.sleep(0) without running anything that touches the Doist']
REQUIRED_TAGS = ['limit-stops-run', 'completes', 'doer-raises', 'zero-override', 'second-run']
RULE = 'tags: run cut by limit, run completes, a doer raises, tyme=0/limit=0 overrides, second run on the same Doist'
SHAPES, KINDSETS = c05.SHAPES, c05.KINDSETS


def partitions(tier):
    b = BOUNDS[tier]
    ps = []
    for j, sh in enumerate(('flat1', 'flat2', 'nestL', 'flat3')):
        names = sched.leaves(SHAPES[sh])
        for mode in ('nolimit', 'limit', 'override', 'rerun', 'raise'):
            ks = ('k0', 'k1', 'k2', 'k3')[(j + len(mode)) % 4]
            for rich in (names if tier == 'thorough' else names[:1] if mode in ('override', 'rerun', 'raise') else names):
                if sh == 'flat3' and tier == 'quick' and mode != 'limit':
                    continue
                ps.append(dict(name='%s-%s-%s-rich_%s' % (sh, mode, ks, rich), shape=sh, kinds=ks, mode=mode, rich=rich,
                               lim='limit' if mode in ('limit', 'rerun', 'raise') else 'nolimit',
                               max_fin=b['max_fin'], simple_fin=b['simple_fin'] if len(names) > 1 else b['max_fin'],
                               max_cycles=b['max_cycles']))
    return ps


class FakeLoop:
    def time(self):
        return 0.0


class FakeAsyncio:
    """what hio.help.timing sees as `asyncio` (AsyncTimer reads the loop clock)"""
    @staticmethod
    def get_event_loop():
        return FakeLoop()


class Runaway(Exception):
    pass


def drive(coro, maxn):
    n = 0
    try:
        while True:
            coro.send(None)
            n += 1
            if n > maxn:
                coro.close()
                raise Runaway()
    except StopIteration:
        pass


Recorder = sched.Recorder


def one_run(rec, part, use_ado, extra):
    sc = c05.scenario(rec, part)
    w, scripts, names = sc['w'], sc['scripts'], sc['names']
    if part['mode'] == 'raise':
        victim = part['rich']
        scripts[victim].faults[extra['rstep']] = (sched.RAISE, None)
    doist = doing.Doist(tock=sc['tock'], tyme=sc['start'], real=False, doers=sc['top'],
                        limit=sc['L'] if part['mode'] in ('override', 'limit', 'raise', 'rerun') and sc['L'] is not None else None)
    orig = doist.recur
    count = [0]

    def counted(deeds=None):
        count[0] += 1
        if count[0] > 2 * part['max_cycles'] + 6:
            raise Runaway()
        w.ev('*', 'cycle', count[0])
        return orig(deeds)
    doist.recur = counted
    kw = {}
    if part['mode'] == 'override':
        if extra['ov_tyme'] is not None:
            kw['tyme'] = extra['ov_tyme']
        if extra['ov_limit'] is not None:
            kw['limit'] = extra['ov_limit']
    out = []
    runs = 2 if part['mode'] == 'rerun' else 1
    exc = None
    for r in range(runs):
        try:
            if use_ado:
                drive(doist.ado(**kw), 4 * part['max_cycles'] + 12)
            else:
                doist.do(**kw)
        except Runaway:
            exc = 'runaway'
        except sched.Boom as ex:
            exc = 'Boom'
        w.ev('*', 'returned', (doist.tyme, doist.done, exc))
        if exc == 'runaway':
            break
    obs = (list(w.trace), doist.tyme, doist.done, tuple(sched.done_of(w.doers[n]) for n in names), count[0], exc, list(w.flags))
    return sc, obs


def harness(sym, part):
    saved = timing.asyncio
    timing.asyncio = FakeAsyncio
    try:
        rec = Recorder(sym)
        extra = {}
        if part['mode'] == 'raise':
            extra['rstep'] = rec.cint('raise_step', 0, 2)
        if part['mode'] == 'override':
            k = rec.cint('override_kind', 0, 3)
            extra['ov_tyme'] = (None, 0.0, None, rec.real('ov_tyme', -2, 2))[k]
            extra['ov_limit'] = (0, None, rec.real('ov_limit', 1 / 64, 2), None)[k]
            if k in (0, 1):
                sym.cover('zero-override')
        sc, a = one_run(rec, part, False, extra)
        sc2, b = one_run(rec, part, True, extra)
    finally:
        timing.asyncio = saved
    if a[5] == 'runaway' and b[5] == 'runaway':
        sym.assume(False)          # scripts need more cycles than the bound (no limit): outside the claim
    if part['mode'] == 'rerun':
        sym.cover('second-run')
    if a[5] == 'Boom':
        sym.cover('doer-raises')
    if a[2] is True:
        sym.cover('completes')
    elif a[2] is False and a[5] is None:
        sym.cover('limit-stops-run')
    labels = ('event trace', 'final tyme', 'Doist.done', 'doer done flags', 'cycle count', 'exception', 'done flags per recur')
    for i in (4, 5, 2, 1, 3, 0, 6):
        if a[i] != b[i]:
            return Failure('do-vs-ado:%s:%s' % (part['mode'], labels[i].replace(' ', '-')),
                           lambda i=i: '%s differs: do() %r  vs  ado() %r' % (labels[i], a[i], b[i]))
    return None


def replay_real(cex, inputs, part):
    """validate the FakeLoop stub: the same concrete scenario under a real asyncio event loop"""
    import asyncio
    from vf.engine.base import ConcreteSym
    rec = Recorder(ConcreteSym(inputs))
    extra = {}
    if part['mode'] == 'raise':
        extra['rstep'] = rec.cint('raise_step', 0, 2)
    if part['mode'] == 'override':
        k = rec.cint('override_kind', 0, 3)
        extra['ov_tyme'] = (None, 0.0, None, rec.real('ov_tyme', -2, 2) if k == 3 else None)[k]
        extra['ov_limit'] = (0, None, rec.real('ov_limit', 1 / 64, 2) if k == 2 else None, None)[k]
    global drive
    saved = drive

    def real_drive(coro, maxn):
        asyncio.run(coro)
    drive = real_drive
    try:
        sc, a = one_run(rec, part, False, extra)
        sc2, b = one_run(rec, part, True, extra)
    finally:
        drive = saved
    return 'real asyncio.run(): do/ado observables %s' % ('DIFFER' if a != b else 'equal')


MUTANTS = [
    ('ado-limit-check-before-done', 'hio/base/doing.py',
     "                    else:\n                        await asyncio.sleep(0.0)  # allow loop to run ASAP\n\n                    if not self.deeds:  # no deeds\n                        self.done = True\n                        break  # break out of forever loop\n\n                    if self.limit and tymer.expired:  # reached limit before all deeds done\n                        break  # break out of forever loop\n",
     "                    else:\n                        await asyncio.sleep(0.0)  # allow loop to run ASAP\n\n                    if self.limit and tymer.expired:  # reached limit before all deeds done\n                        break  # break out of forever loop\n\n                    if not self.deeds:  # no deeds\n                        self.done = True\n                        break  # break out of forever loop\n"),
]
