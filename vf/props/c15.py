"""C15 — server-sent events are delivered exactly regardless of line endings and splits"""
from collections import deque
from vf.engine.base import Failure
from vf.kits import httpkit
from hio.core.http import httping, clienting

ID = 'C15'
EXPLANATION = ("Real httping.EventSource.parseEvents (over parseLine with eols CRLF, LF, CR) and clienting.Respondent.parseBody evented "
               "branches (chunked and close-delimited). Streams are built from a line grammar (data ×<=2, id, event, retry, comment, blank) "
               "with <= 3 (quick) / 4 lines chosen by the solver, the terminator of each line following one of 9 solver-chosen patterns over CRLF | LF | CR (uniform styles, rotations and mixtures), delivered whole, cut "
               "at every position, and one byte at a time; inside chunked encoding the chunk boundaries are additional cuts. Oracle: a "
               "reference implementation of the WHATWG dispatch rules written in the harness (independent of hio): expected list of "
               "{id, name, data}, last event id and retry. Layer 1 (C13 style) additionally checks parseLine(eols=(CRLF,LF,CR)) on fully "
               "symbolic byte strings for fragmentation independence.")
FUNCTIONS = [('hio.core.http.httping', 'EventSource.parseEvents'), ('hio.core.http.httping', 'EventSource.parse'), ('hio.core.http.httping', 'parseLine'),
             ('hio.core.http.clienting', 'Respondent.parseBody'), ('hio.core.http.clienting', 'Respondent.parseHead')]
BOUNDS = {'quick': dict(lines=3, prim_len=4, budget_s=150, audit_max=6), 'thorough': dict(lines=3, lines_source=4, prim_len=5, budget_s=1500, audit_max=20)}
OUTSIDE = ['streams longer than the bound / field values other than the grammar\'s', 'data fields with empty values', 'BOM handling', 'json event data (dictable)', 'a stream ending in a bare CR with no further byte ever arriving']
STUBS = []
ASSUMPTIONS = ['WHATWG event-stream dispatch rules as implemented by the 30-line reference in this module']
_TAGS = ['cr-terminator', 'crlf-terminator', 'lf-terminator', 'mixed-terminators', 'cut-inside-CRLF', 'multi-line-data', 'retry', 'comment', 'chunked', 'close-delimited', 'one-byte-reads']
REQUIRED_TAGS = {'quick': _TAGS, 'thorough': _TAGS + ['id-persists']}
RULE = 'tags: each terminator kind, mixtures, cuts between CR and LF, multi-line data, id persistence, retry, comments, chunked and close-delimited delivery'
LINES = [b'data: a', b'data: b', b'id: 7', b'event: e', b': c', b'retry: 5', b'']
TERMS = [b'\r\n', b'\n', b'\r']
# terminator index per line position: uniform styles and rotations/mixtures of all three
PATTERNS = [(0,), (1,), (2,), (0, 1, 2), (1, 2, 0), (2, 0, 1), (2, 2, 0), (0, 2, 2), (1, 0, 0, 2)]


def partitions(tier):
    b = BOUNDS[tier]
    ps = []
    for mode in ('source', 'resp-close', 'resp-chunked'):
        for first in range(len(LINES) - 1):
            ps.append(dict(name='%s-first-%d' % (mode, first), form='stream', mode=mode, first=first, lines=b.get('lines_source', b['lines']) if mode == 'source' else b['lines']))
    for n in range(2, b['prim_len'] + 1):
        ps.append(dict(name='prim-line-CRLFxLFxCR-len%d' % n, form='prim', n=n))
    return ps


def reference(lines):
    """WHATWG dispatch over already separated lines"""
    events, leid, retry = [], None, None
    data, name = [], ''
    for ln in lines:
        if ln == b'':
            if data:
                events.append(dict(id=leid, name=name, data='\n'.join(data)))
            data, name = [], ''
            continue
        if ln.startswith(b':'):
            continue
        field, sep, value = ln.partition(b':')
        if value.startswith(b' '):
            value = value[1:]
        field, value = field.decode(), value.decode()
        if field == 'data':
            data.append(value)
        elif field == 'event':
            name = value
        elif field == 'id':
            leid = value
        elif field == 'retry' and value.isdigit():
            retry = int(value)
    return events, leid, retry


def run_source(pieces):
    raw = bytearray()
    es = httping.EventSource(raw=raw)
    for p in pieces:
        raw.extend(p)
        es.parse()
    return [dict(e) for e in es.events], es.leid, es.retry


def run_resp(pieces, chunked):
    msg = bytearray()
    r = clienting.Respondent(msg=msg, method='GET')
    for p in pieces:
        msg.extend(p)
        r.parse()
    return [dict(e) for e in r.events], r.leid, r.retry, bool(r.errored)


def harness_stream(sym, part):
    k = part['lines']
    nlines = sym.cint('nlines', 1, k)
    chosen, terms = [], []
    pat = sym.cint('term_pattern', 0, len(PATTERNS) - 1)      # which terminator each line gets
    for i in range(nlines):
        li = part['first'] if i == 0 else sym.cint('line%d' % i, 0, len(LINES) - 1)
        chosen.append(LINES[li])
        terms.append(TERMS[PATTERNS[pat][i % len(PATTERNS[pat])]])
    chosen.append(b'')                     # final blank line dispatches what is pending
    terms.append(TERMS[PATTERNS[pat][nlines % len(PATTERNS[pat])]])
    for i in range(len(chosen) - 1):       # CR followed by an LF-terminated blank line IS a CRLF: not a separate line (grammar ambiguity)
        sym.assume(not (terms[i] == b'\r' and chosen[i + 1] == b'' and terms[i + 1] in (b'\n', b'\r\n') and terms[i + 1][:1] == b'\n'))
    stream = b''.join(l + t for l, t in zip(chosen, terms))
    # a terminating bare CR is only recognisable once another byte arrives: append a comment line so the stream goes on
    stream += b': end\n'
    exp = reference(chosen)
    for t in set(terms):
        sym.cover({b'\r\n': 'crlf-terminator', b'\n': 'lf-terminator', b'\r': 'cr-terminator'}[t])
    if len(set(terms)) > 1:
        sym.cover('mixed-terminators')
    if chosen.count(b'data: a') + chosen.count(b'data: b') > 1:
        sym.cover('multi-line-data')
    if b'id: 7' in chosen and len(exp[0]) > 1:
        sym.cover('id-persists')
    if b'retry: 5' in chosen:
        sym.cover('retry')
    if b': c' in chosen:
        sym.cover('comment')
    mode = part['mode']
    n = len(stream)
    if mode == 'source':
        wire = stream
        wires = [wire]
        run = run_source
        want = exp
    else:
        head = b'HTTP/1.1 200 OK\r\nContent-Type: text/event-stream\r\n'
        if mode == 'resp-chunked':
            sym.cover('chunked')
            wires = [head + b'Transfer-Encoding: chunked\r\n\r\n' + httping.packChunk(stream[:c]) + httping.packChunk(stream[c:]) for c in range(1, n)]
            wire = wires[0]
        else:
            sym.cover('close-delimited')
            wire = head + b'\r\n' + stream
            wires = [wire]
        run = lambda pieces: run_resp(pieces, mode == 'resp-chunked')
        init_retry = clienting.Respondent(msg=bytearray(), method='GET').retry
        want = (exp[0], exp[1], exp[2] if exp[2] is not None else init_retry, False)
    def compare_all():       # concrete bytes from here on: every chunk boundary, every single cut and byte-at-a-time, tracer off
        for w_ in wires:
            r_ = compare_one(w_)
            if r_:
                return r_
        return None

    def compare_one(wire):
        whole = run([wire])
        if whole != want:
            return ('whole', 'stream %r: got %r expected %r' % (stream, whole, want))
        for cut in (range(1, len(wire)) if len(wires) == 1 else ()):      # chunked: the chunk boundary is the cut (plus byte-at-a-time below)
            two = run([wire[:cut], wire[cut:]])
            if two != want:
                return ('cut', 'stream %r cut at %d (%r|%r): got %r expected %r' % (stream, cut, wire[max(0, cut - 3):cut], wire[cut:cut + 3], two, want))
        ones = run([wire[i:i + 1] for i in range(len(wire))])
        if ones != want:
            return ('bytewise', 'stream %r byte at a time: got %r expected %r' % (stream, ones, want))
        return None
    if b'\r\n' in wire:
        sym.cover('cut-inside-CRLF')
    sym.cover('one-byte-reads')
    bad = sym.untraced(compare_all)
    if bad:
        return Failure('%s:events-differ-from-dispatch-rules:%s' % (mode, bad[0]), bad[1])
    return None


def harness_prim(sym, part):
    n = part['n']
    data = sym.bytes('data', n, alphabet=b'\r\n:a d', minlen=n)
    tail = b'x\n'        # more bytes always follow (a trailing bare CR is otherwise undecidable)
    cut = sym.int('cut', 1, n - 1)
    eols = (b'\r\n', b'\n', b'\r')
    whole = httpkit.run_primitive('line', eols, [data + tail])
    two = httpkit.run_primitive('line', eols, [data[:cut], data[cut:] + tail])
    ones = httpkit.run_primitive('line', eols, [data[i:i + 1] for i in range(n)] + [tail])
    sym.cover_if('cut-inside-CRLF', data[cut - 1] == 13, data[cut] == 10)
    if whole != two:
        return Failure('primitive:line:CRLF+LF+CR:whole-vs-cut', lambda: 'parseLine on %r: whole %r, cut at %r gives %r' % (bytes(data) + tail, whole, cut, two))
    if whole != ones:
        return Failure('primitive:line:CRLF+LF+CR:whole-vs-bytewise', lambda: 'parseLine on %r: whole %r, byte at a time %r' % (bytes(data) + tail, whole, ones))
    return None


def harness(sym, part):
    return harness_stream(sym, part) if part['form'] == 'stream' else harness_prim(sym, part)


MUTANTS = [
    ('crlf-split-not-remembered', 'hio/core/http/httping.py', "            skip = True  # CR at end of raw may be first half of split CRLF", "            skip = False"),
    ('event-name-not-reset', 'hio/core/http/httping.py',
     "                if self.closed:  # all done\n                    lineParser.close()  # close generator\n                    break\n                ename = u''\n",
     "                if self.closed:  # all done\n                    lineParser.close()  # close generator\n                    break\n"),
]
