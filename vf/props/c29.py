"""C29 — file resources stay inside their directory and temp resources are removed"""
from vf.engine.base import Failure
from vf.stubs import fakefs
from hio.base import filing
from hio import hioing

ID = 'C29'
EXPLANATION = ("Real Filer.__init__ / reopen / remake / close / _clearPath over an in-memory file system (FakeFS: POSIX tree semantics, every effect "
               "logged). Per flag combination (temp, clean, filed, extensioned) the name (1-3 segments) and base (0-2 segments) are built from "
               "solver-chosen segments out of '..', '.', 'a', 'a.b', '' ; what already exists at the target path (nothing / directory / file), "
               "whether the head directory is writable or accessible (alt-head fallback) and a second reopen (reuse or not, clear or not) are "
               "solver-chosen too; all enumerated to exhaustion. Oracle: every makedirs / open / chmod / remove / rmtree the Filer issues, and its "
               ".path, lie inside its head directory (the mkdtemp directory when temp, the alt head only after a refused head); close(clear) "
               "leaves nothing at .path, removes nothing outside .path (for temp: outside the mkdtemp directory), and a temp Filer leaves "
               "nothing behind under the temp head.")
FUNCTIONS = [('hio.base.filing', n) for n in ('Filer.__init__', 'Filer.reopen', 'Filer.remake', 'Filer.close', 'Filer._clearPath', 'Filer.exists')]
BOUNDS = {'quick': dict(nseg=2, bseg=1, budget_s=200, audit_max=6), 'thorough': dict(nseg=3, bseg=2, budget_s=2400, audit_max=20)}
OUTSIDE = ['names with more segments than the bound or other characters', 'symbolic links', 'concurrent modification of the directory', 'absolute names (rejected by Filer)',
           'the real file system (FakeFS models POSIX directory-tree semantics only)']
STUBS = ['FakeFS (vf/stubs/fakefs.py) bound as os / shutil / tempfile / ocfn inside hio.base.filing']
ASSUMPTIONS = ['mkdtemp returns a fresh directory directly under the temp head']
REQUIRED_TAGS = ['dotdot-segment', 'dot-segment', 'empty-segment', 'dotted-name', 'preexisting-file', 'preexisting-dir', 'alt-head-fallback', 'temp', 'clean', 'filed', 'extensioned', 'reopen-reuse', 'clear', 'reopen-switches-temp', 'temp-with-persistent-twin']
RULE = 'tags: .. / . / empty / dotted segments, something already at the path, fallback to the alt head, every flag, reopen with reuse, close with clear'
SOLVER_ROLE = 'enumeration of a finite scenario space through the solver-maintained path tree; each scenario then runs concretely on the real code over the stub file system'
SEGS = ['..', '.', 'a', 'a.b', '']
HEAD, ALT, TEMPHEAD = '/H', '/ALT', '/T'


def partitions(tier):
    b = BOUNDS[tier]
    ps = []
    for temp in (0, 1):
        for clean in (0, 1):
            for filed in (0, 1):
                for ext in (0, 1):
                    for nn in range(1, b['nseg'] + 1):
                        ps.append(dict(name='%s%s%s%s-name%d' % ('T' if temp else 't', 'C' if clean else 'c', 'F' if filed else 'f', 'E' if ext else 'e', nn),
                                       temp=temp, clean=clean, filed=filed, ext=ext, nn=nn, bseg=b['bseg']))
    return ps


class F(filing.Filer):
    AltHeadDirPath = ALT
    TempHeadDir = TEMPHEAD


def inside(p, root):
    return p == root or p.startswith(root + '/')


def scenario(part, name, base, pre, head_ok, again, reuse, clear2):
    temp, clean, filed, ext = bool(part['temp']), bool(part['clean']), bool(part['filed']), bool(part['ext'])

    def fresh_fs():
        fs = fakefs.FakeFS()
        for d in (HEAD, ALT, TEMPHEAD, '/other/keep'):
            fs.mkdir_p(d)
        fs.files.add('/other/keep/file')
        return fs
    desc = 'Filer(name=%r, base=%r, temp=%r, clean=%r, filed=%r, extensioned=%r, headDirPath=%r)' % (name, base, temp, clean, filed, ext, HEAD)
    # dry run on a scratch tree to learn the target path, so that something can pre-exist there
    target = None
    if pre != 'nothing':
        fs0 = fresh_fs()
        with fakefs.Patch(filing, fs0):
            try:
                # for a temp Filer the fresh mkdtemp directory is empty by contract: what pre-exists is the PERSISTENT twin
                # (same name / base / flags under the head directory), which a temp Filer must not touch
                f0 = F(name=name, base=base, temp=False, headDirPath=HEAD, clean=clean, filed=filed, extensioned=ext, reopen=True)
                target = f0.path
            except Exception:      # noqa
                return 'skip', None
    fs = fresh_fs()
    if target:
        import posixpath
        fs.mkdir_p(posixpath.dirname(target))
        if pre == 'file':
            fs.files.add(target)
        else:
            fs.mkdir_p(target)
            fs.files.add(target + '/old')
    if head_ok == 'readonly':
        fs.readonly.append(HEAD)
    elif head_ok == 'inaccessible':
        fs.inaccessible.append(HEAD)
    before = fs.snapshot()
    tags = set()
    with fakefs.Patch(filing, fs):
        try:
            f = F(name=name, base=base, temp=temp, headDirPath=HEAD, clean=clean, filed=filed, extensioned=ext, reopen=True)
        except hioing.FilerError:
            return 'rejected', None
        except OSError as ex:
            # an operating-system refusal surfaced to the caller: allowed, but nothing may have happened outside
            f = None
            err = ex
        temps = [p for k, p in fs.log if k == 'mkdtemp']
        roots = [temps[-1]] if (temp and temps) else [HEAD]
        fell_back = any(inside(p, ALT) for k, p in fs.log)
        if not temp and (head_ok != 'ok' or pre != 'nothing'):
            roots.append(ALT)       # the documented fallback when the head refuses
        if fell_back:
            tags.add('alt-head-fallback')

        def check_log(stage):
            for kind, p in fs.log:
                if kind == 'mkdtemp':
                    if not inside(p, TEMPHEAD):
                        return Failure('outside:mkdtemp', '%s: mkdtemp made %s' % (desc, p))
                    continue
                if not any(inside(p, r) for r in roots):
                    esc = 'dotdot' if '..' in (name + '/' + base).split('/') else 'other'
                    return Failure('outside-head:%s:%s' % (kind, esc), '%s %s: %s(%s) is outside %r' % (desc, stage, kind, p, roots))
            return None
        r = check_log('on open')
        if r:
            return r, tags
        if f is None:
            return None, tags
        if not any(inside(f.path, r) for r in roots):
            return Failure('outside-head:path', '%s: .path = %s outside %r' % (desc, f.path, roots)), tags
        import posixpath
        sib = posixpath.join(posixpath.dirname(f.path), 'sibling-of-another-filer')
        if f.path != '/' and not fs.path.exists(sib) and (filed or ext) and posixpath.dirname(f.path) in fs.dirs:
            fs.files.add(sib)       # another Filer's file in the same directory
        else:
            sib = None
        if again:
            oldpath, oldtemp, oldtemps = f.path, f.temp, [p for k, p in fs.log if k == 'mkdtemp']
            snap = fs.snapshot()
            kw = dict(reuse=reuse, clear=clear2)
            if again == 'switch-temp':
                kw['temp'] = not temp
                tags.add('reopen-switches-temp')
            try:
                f.reopen(**kw)
            except OSError:
                pass
            if reuse:
                tags.add('reopen-reuse')
            temps = [p for k, p in fs.log if k == 'mkdtemp']
            if temps and (temp or again == 'switch-temp'):
                roots = temps[:] + ([HEAD, ALT] if again == 'switch-temp' else [])     # each remake of a temp Filer makes its own directory
            r = check_log('on reopen(%r)' % (kw,))
            if r:
                return r, tags
            gone = [p for p in (snap[0] | snap[1]) if p not in fs.dirs and p not in fs.files]
            bad = [p for p in gone if not inside(p, oldpath) and not (oldtemp and any(inside(p, t) for t in oldtemps))]
            if bad:
                return Failure('reopen:removed-outside-own-path', '%s: reopen(%r) with old path %s also removed %r' % (desc, kw, oldpath, sorted(bad))), tags
            temp = f.temp
        path = f.path
        mid = fs.snapshot()
        n0 = len(fs.log)
        refused = False
        try:
            f.close(clear=True)
        except OSError as ex:
            # the operating system refused (e.g. something that is not what the Filer expects sits at .path): allowed by the
            # statement as long as nothing outside was touched, which is still checked below
            refused = True
            tags.add('clear-refused-by-os')
        tags.add('clear')
        r = check_log('on close(clear=True)')
        if r:
            return r, tags
        if fs.path.exists(path) and not refused:
            return Failure('clear:path-still-there', '%s: %s still exists after close(clear=True)' % (desc, path)), tags
        # nothing outside its own path is removed
        keep_root = path
        gone = [p for p in (mid[0] | mid[1]) if p not in fs.dirs and p not in fs.files]
        outside = [p for p in gone if not inside(p, keep_root) and not (temp and any(inside(p, t) for t in temps))]
        if outside:
            return Failure('clear:removed-outside-own-path', '%s: close(clear=True) with path %s also removed %r' % (desc, path, sorted(outside))), tags
        if '/other/keep/file' not in fs.files:
            return Failure('clear:removed-unrelated', '%s: unrelated file removed' % desc), tags
        if temp:
            left = [p for p in (fs.dirs | fs.files) if any(inside(p, t) for t in temps)]
            if left:
                return Failure('temp:left-behind-under-temp-head', '%s: after close(clear=True) the temp head still holds %r' % (desc, sorted(left))), tags
    return None, tags


def harness(sym, part):
    nn = part['nn']
    name = '/'.join(SEGS[sym.cint('n%d' % i, 0, len(SEGS) - 1)] for i in range(nn))
    nb = sym.cint('nbase', 0, part['bseg'])
    base = '/'.join(SEGS[sym.cint('b%d' % i, 0, len(SEGS) - 1)] for i in range(nb))
    pre = sym.choice('preexisting', ['nothing', 'dir', 'file'])
    head_ok = sym.choice('head', ['ok', 'readonly', 'inaccessible']) if not part['temp'] else 'ok'
    def variants():
        # no second reopen, and the four (reuse, clear) combinations of one, in the same concrete leaf
        alltags = set()
        for (again, reuse, clear2) in ((False, False, False), (True, False, False), (True, True, False), (True, False, True), (True, True, True),
                                       ('switch-temp', False, True), ('switch-temp', False, False)):
            r = scenario(part, name, base, pre, head_ok, again, reuse, clear2)
            alltags |= r[1] or set()
            if r[0] in ('skip', 'rejected'):
                return r
            if isinstance(r[0], Failure):
                return r[0], alltags
        return None, alltags
    r = sym.untraced(variants)
    if r[0] in ('skip',):
        sym.assume(False)
    if r[0] == 'rejected':
        sym.cover('rejected-by-filer')
        return None
    f, tags = r
    segs = name.split('/') + (base.split('/') if nb else [])
    for t, c in (('dotdot-segment', '..' in segs), ('dot-segment', '.' in segs), ('empty-segment', '' in segs), ('dotted-name', 'a.b' in segs),
                 ('preexisting-file', pre == 'file'), ('preexisting-dir', pre == 'dir'), ('temp', part['temp']), ('clean', part['clean']),
                 ('filed', part['filed']), ('extensioned', part['ext'])):
        if c:
            sym.cover(t)
    for t in tags or ():
        sym.cover(t)
    if part['temp'] and pre != 'nothing':
        sym.cover('temp-with-persistent-twin')
    return f


MUTANTS = [
    ('reopen-settings-before-close', 'hio/base/filing.py',
     "        self.close(clear=clear)\n\n        if temp is not None:\n            self.temp = temp\n",
     "        if temp is not None:\n            self.temp = temp\n        self.close(clear=clear)\n"),
    ('clearpath-file-rmtree-parent-always', 'hio/base/filing.py',
     "                    self.file = None  #\n\n                if self.temp:  # remove trailing dir of path as well",
     "                    self.file = None  #\n\n                if True:  # remove trailing dir of path as well"),
    ('clean-removes-parent-always', 'hio/base/filing.py',
     "                else:\n                    shutil.rmtree(path)\n\n            if not os.path.exists(path):  # no path so attempt to create",
     "                else:\n                    shutil.rmtree(os.path.split(os.path.split(os.path.split(path)[0])[0])[0])\n\n            if not os.path.exists(path):  # no path so attempt to create"),
]
