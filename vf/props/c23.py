"""C23 — durable queues and sets behave as FIFO models and survive reopen"""
from vf.engine.base import Failure
from vf.kits import lmdbkit
from hio.base.hier import durqing, dusqing, holding
from hio.base.hier.bagging import Bag, IceBag

ID = 'C23'
EXPLANATION = ("Real Durq / Dusq injected into a real Hold over a Subery (DomIoSuber / DomIoSetSuber and the Duror cursor routines under them; "
               "FakeLMDB in the symbolic run, the REAL lmdb in every replay / audit run). The operation sequence (push, pull, extend/update with a "
               "duplicate inside, clear, remove, pull-on-empty; value from a 3-value domain) and the points at which the store is closed, "
               "reopened and a NEW queue object is injected under the same key (sync) are solver-chosen and enumerated to exhaustion. After every "
               "operation: return value, in-memory content and the durable copy (read back through the sub-database) equal a FIFO list / "
               "insertion-ordered set model; after every reopen the fresh object holds exactly the model content.")
FUNCTIONS = [('hio.base.hier.durqing', 'Durq.' + n) for n in ('push', 'pull', 'extend', 'clear', 'sync', 'pin', 'put', 'add', 'pop', 'rem')] + \
            [('hio.base.hier.dusqing', 'Dusq.' + n) for n in ('push', 'pull', 'update', 'clear', 'remove', 'sync', 'pin', 'put', 'add', 'pop', 'rem')] + \
            [('hio.base.hier.holding', 'Hold.inject'), ('hio.base.during', 'DomIoSuber'), ('hio.base.during', 'DomIoSetSuber'), ('hio.base.during', 'DomSuberBase._ser'),
             ('hio.base.during', 'DomSuberBase._des'), ('hio.base.during', 'Duror.addIoVal'), ('hio.base.during', 'Duror.putIoVals'), ('hio.base.during', 'Duror.popIoVal'),
             ('hio.base.during', 'Duror.remIoVals'), ('hio.base.during', 'Duror.pinIoVals'), ('hio.base.during', 'Duror.addIoSetVal'), ('hio.base.during', 'Duror.putIoSetVals'),
             ('hio.base.during', 'Duror.remIoSetVal'), ('hio.base.during', 'Duror.getIoValsIter')]
BOUNDS = {'quick': dict(nops=4, budget_s=200, audit_max=4), 'thorough': dict(nops=4, budget_s=2400, audit_max=12)}
OUTSIDE = ['more operations than the bound', 'more than one reopen per sequence in the quick tier (any subset of the four points in thorough)', 'values other than three small registered dataclasses',
           'two queues under related keys (key interference is C24)', 'crash in the middle of an operation (a closed store is always a consistent LMDB snapshot)']
STUBS = ['FakeLMDB in the symbolic run only; Subery state constructed directly (no directory handling)']
ASSUMPTIONS = ['the store is closed only between operations']
REQUIRED_TAGS = ['duplicate-push', 'pull-empty', 'reopen-nonempty', 'reopen-after-emptied', 'extend-with-duplicate', 'clear-nonempty', 'remove-present', 'remove-absent', 'durq', 'dusq']
RULE = 'tags: duplicates, pulls on empty, reopen with content and after the queue was emptied, extend/update containing duplicates, clear, remove of present and absent values'
SOLVER_ROLE = 'enumeration of a finite operation/reopen-schedule space through the solver-maintained path tree; each operation then runs concretely on the real code'
OPS = {'durq': ['push', 'pull', 'extend', 'clear'], 'dusq': ['push', 'pull', 'update', 'clear', 'remove']}


def partitions(tier):
    b = BOUNDS[tier]
    ps = []
    for kind in ('durq', 'dusq'):
        for first in ('push', 'extend' if kind == 'durq' else 'update'):
            for second in OPS[kind]:
                ps.append(dict(name='%s-%s-%s' % (kind, first, second), kind=kind, first=first, second=second, nops=b['nops'], multi=(tier == 'thorough')))
    return ps


def harness(sym, part):
    kind = part['kind']
    vals = [IceBag(value=0), IceBag(value=1), IceBag(value=2)] if kind == 'dusq' else [Bag(value=0), Bag(value=1), Bag(value=2)]
    state = {}

    def fresh(first):
        db = lmdbkit.make_subery(sym, fresh=first)
        h = holding.Hold()
        h['_hold_subery'] = db
        q = durqing.Durq() if kind == 'durq' else dusqing.Dusq()
        h['q'] = q       # inject: key, sub-database and sync with what the store holds
        state.update(db=db, h=h, q=q)
        return q
    try:
        q = sym.untraced(lambda: fresh(True))
        model = []
        hist = []
        sym.cover(kind)
        nops = part['nops']
        reopen_at = sym.cint('reopen_after', -1, nops - 1) if not part['multi'] else None
        for i in range(nops):
            op = part['first'] if i == 0 else (part['second'] if i == 1 else sym.choice('op%d' % i, OPS[kind]))
            vi = sym.cint('val%d' % i, 0, 2) if i else 0
            v = vals[vi]
            w = vals[(vi + 1) % 3]
            hist.append((op, vi))

            def step():
                q = state['q']
                try:
                    if op == 'push':
                        got = q.push(v)
                        exp = True
                        if kind == 'durq' or v not in model:
                            model.append(v)
                    elif op == 'pull':
                        got = q.pull()
                        exp = model.pop(0) if model else None
                    elif op in ('extend', 'update'):
                        before = len(model)
                        for x in (v, w, v):
                            if kind == 'durq' or x not in model:
                                model.append(x)
                        got = (q.extend if kind == 'durq' else q.update)([v, w, v])
                        exp = True if kind == 'durq' else len(model) > before
                    elif op == 'clear':
                        exp = bool(model)
                        del model[:]
                        got = q.clear()
                    else:
                        exp = v in model
                        if exp:
                            model.remove(v)
                        got = q.remove(v)
                except Exception as ex:      # noqa
                    return 'raises:%s:%s' % (op, type(ex).__name__), '%s raised %r' % (op, ex)
                if got != exp:
                    return 'return-value:%s' % op, '%s returned %r, model says %r' % (op, got, exp)
                if list(q) != model:
                    return 'memory-content', 'in memory %r, model %r' % (list(q), model)
                dur = list(q._sdb.getIter(q._key))
                if dur != model:
                    return 'durable-content', 'durable copy %r, model %r' % (dur, model)
                if q.cnt() != len(model):
                    return 'durable-content', 'durable count %r, model %d' % (q.cnt(), len(model))
                return None
            r = sym.untraced(step)
            if r is not None:
                return Failure('%s:%s' % (kind, r[0]), 'after %r: %s' % (hist, r[1]))
            if op == 'push' and kind == 'durq' and model.count(v) > 1 or op == 'push' and kind == 'dusq' and i and (('push', vi) in hist[:-1]):
                sym.cover('duplicate-push')
            if op == 'pull' and not model and (i == 0 or hist[i - 1][0] in ('pull', 'clear')):
                sym.cover('pull-empty')
            if op in ('extend', 'update'):
                sym.cover('extend-with-duplicate')
            if op == 'clear' and i:
                sym.cover('clear-nonempty')
            if op == 'remove':
                sym.cover('remove-present' if len(hist) > 1 and ('push', vi) in hist[:-1] else 'remove-absent')
            reopen = (i == reopen_at) if not part['multi'] else sym.cbool('reopen_after%d' % i)
            if reopen:
                hist.append(('reopen', None))

                def again():
                    lmdbkit.close_subery(sym, state['db'])
                    q2 = fresh(False)
                    if list(q2) != model:
                        return 'a new %s injected under the same key after close/reopen holds %r, model %r' % (kind, list(q2), model)
                    dur = list(q2._sdb.getIter(q2._key))
                    if dur != model:
                        return 'durable copy after reopen and sync %r, model %r' % (dur, model)
                    return None
                try:
                    txt = sym.untraced(again)
                except Exception as ex:      # noqa
                    return Failure('%s:raises:reopen:%s' % (kind, type(ex).__name__), 'after %r: reopen raised %r' % (hist, ex))
                if txt:
                    return Failure('%s:reopen-content' % kind, 'after %r: %s' % (hist, txt))
                sym.cover('reopen-nonempty' if model else ('reopen-after-emptied' if i else 'reopen-empty'))
        return None
    finally:
        if 'db' in state:
            sym.untraced(lambda: lmdbkit.close_subery(sym, state['db']))
        if getattr(sym, 'concrete', False):
            lmdbkit.cleanup()


MUTANTS = [
    ('dusq-remove-memory-only', 'hio/base/hier/dusqing.py',
     "            if self.rem(value) == False:\n                raise HierError",
     "            if False:\n                raise HierError"),
    ('durq-clear-memory-only', 'hio/base/hier/durqing.py',
     "        if self.rem() == False:\n            raise HierError",
     "        if False:\n            raise HierError"),
    ('sync-never-reads', 'hio/base/hier/durqing.py',
     "            if self._sdb.cnt(self._key):  # not empty",
     "            if False:  # not empty"),
    ('dusq-pull-last', 'hio/base/hier/dusqing.py',
     "            val = self._oset[0]\n            self._oset.remove(val)",
     "            val = self._oset[-1]\n            self._oset.remove(val)"),
]
