"""C11 — closing a TCP endpoint releases every socket it opened"""
import errno

from vf.engine.base import Failure
from vf.stubs import fakenet
from hio.core.tcp import clienting, serving

ID = 'C11'
EXPLANATION = ("Real tcp Server/ServerTls and Client/ClientTls over FakeNet, whose registry records every descriptor the endpoint created "
               "(socket()) or accepted (accept()) until it is closed. Bounded event histories chosen by the solver and enumerated to "
               "exhaustion: server - a client connects from address 1 | address 2 | address 1 AGAIN (replacement), service(), the peer of a "
               "connection closes, TLS handshakes completing at once / after a wait / never (pending) / failing, removeIx; always ended by "
               "close(); before the successful open, 0..2 open attempts on which bind() or listen() fails after the socket was created "
               "(then close or retry). Client - reopen(), service() with connect results (connected, in progress, refused) and TLS handshake progress, "
               "close(). Oracle: after Server.close() no descriptor of the endpoint is open (listen socket, accepted connections incl. "
               "those still handshaking and those replaced by a newer connection from the same address); after Client.reopen() at most "
               "one descriptor of the client is open, after close() none.")
FUNCTIONS = [('hio.core.tcp.serving', 'Server.serviceAxes'), ('hio.core.tcp.serving', 'Server.close'), ('hio.core.tcp.serving', 'Server.closeAllIx'),
             ('hio.core.tcp.serving', 'Server.removeIx'), ('hio.core.tcp.serving', 'Acceptor.close'), ('hio.core.tcp.serving', 'Acceptor.serviceAccepts'),
             ('hio.core.tcp.serving', 'ServerTls.serviceAxes'), ('hio.core.tcp.serving', 'ServerTls.serviceCxes'), ('hio.core.tcp.serving', 'Remoter.close'),
             ('hio.core.tcp.serving', 'RemoterTls.close'), ('hio.core.tcp.serving', 'RemoterTls.handshake'), ('hio.core.tcp.clienting', 'Client.reopen'),
             ('hio.core.tcp.clienting', 'Client.close'), ('hio.core.tcp.clienting', 'Client.accept'), ('hio.core.tcp.clienting', 'Client.serviceConnect'),
             ('hio.core.tcp.clienting', 'ClientTls.connect'), ('hio.core.tcp.clienting', 'ClientTls.close')]
BOUNDS = {'quick': dict(events=4, budget_s=120, audit_max=6), 'thorough': dict(events=5, budget_s=900, audit_max=20)}
OUTSIDE = ['histories longer than the bound', 'garbage collection closing a forgotten socket (strong references are held: a descriptor the library forgot is a leak)',
           'faults raised by close() itself (shutdown() on a connection the kernel already dropped does raise ENOTCONN in the stub)']
STUBS = ['FakeNet descriptor registry; FakeCtx handshake scripts']
ASSUMPTIONS = ['a connection sitting in the listen backlog, never accepted, is not a descriptor opened by the endpoint']
REQUIRED_TAGS = ['open-fails-after-socket-created', 'replaced-connection', 'handshake-pending-at-close', 'handshake-failed', 'peer-closed', 'two-connections', 'client-reopen-while-connecting', 'client-refused-then-reopen', 'peer-reset', 'client-reconnect-timer-expired']
RULE = 'tags: replacement of a connection from the same address, TLS handshakes pending/failed at close, peer close, client reopen during connect'
SEV = ['conn1', 'conn2', 'conn1', 'service', 'service', 'peerclose', 'reset', 'remove']
CEV = ['reopen', 'service', 'service', 'close', 'tick']


def partitions(tier):
    b = BOUNDS[tier]
    ps = []
    for cls in ('Server', 'ServerTls'):
        for first in ('conn1', 'conn2'):
            for second in ('service', 'conn1'):
                if b['events'] < 5:
                    ps.append(dict(name='%s-%s-%s' % (cls, first, second), cls=cls, first=first, second=second, events=b['events']))
                else:       # longer histories: one partition per third event as well
                    for third in sorted(set(SEV), key=SEV.index):
                        ps.append(dict(name='%s-%s-%s-%s' % (cls, first, second, third), cls=cls, first=first, second=second, third=third, events=b['events']))
    for cls in ('Server', 'ServerTls'):
        ps.append(dict(name='%s-failed-open' % cls, cls=cls, first='conn1', second='service', events=3, failopen=True))
    for cls in ('Client', 'ClientTls'):
        ps.append(dict(name='%s-history' % cls, cls=cls, events=b['events']))
    return ps


def leaked(net):
    return [s for s in net.created if s in net.opened and not s.closed]


def harness_server(sym, part):
    net = fakenet.FakeNet()
    tls = part['cls'] == 'ServerTls'
    with fakenet.Patch(net, serving):
        ctx = fakenet.FakeCtx(script=['ok'])
        srv = serving.ServerTls(ha=('127.0.0.1', 6101), context=ctx) if tls else serving.Server(ha=('127.0.0.1', 6101))
        # before the successful open: 0..2 attempts on which bind() or listen() fails (address in use) after the socket was created
        nfail = sym.cint('failed_opens', 1, 2) if part.get('failopen') else 0      # own partitions: keeps the history partitions small
        net.bind_plan = [sym.choice('openfail%d' % j, ['bind', 'listen']) for j in range(nfail)]
        for j in range(nfail):
            sym.cover('open-fails-after-socket-created')
            if srv.reopen():
                return Failure('%s:reopen-true-although-bind-failed' % part['cls'], 'reopen() returned True on a failing bind/listen')
            if sym.cbool('close_after_failed_open%d' % j):
                srv.close()
            if leaked(net) and srv.ss is None:
                pass
        if nfail and sym.cbool('give_up_after_failed_open'):
            srv.close()
            lk = leaked(net)
            if lk:
                return Failure('%s:close-leaves-open:listen-socket-of-failed-open' % part['cls'],
                               lambda: 'after %d failed open attempt(s) and close(): %d descriptors still open' % (nfail, len(lk)))
            return None
        assert srv.reopen()
        addrs = {'conn1': ('10.0.0.1', 4001), 'conn2': ('10.0.0.2', 4002)}
        seen = []
        did = []
        evs = [part['first'], part['second']] + ([part['third']] if 'third' in part else []) + [None] * (part['events'] - 2 - (1 if 'third' in part else 0))
        for i, ev in enumerate(evs):
            if ev is None:
                ev = sym.choice('ev%d' % i, SEV)
            did.append(ev)
            if ev in addrs:
                if tls:
                    hs = sym.choice('hs%d' % i, ['ok', 'wait', 'pending', 'fail'])
                    ctx.scripts.append({'ok': ['ok'], 'wait': ['want-read', 'ok'], 'pending': ['want-read'] * 20, 'fail': ['want-read', 'eof']}[hs])
                    if hs == 'fail':
                        sym.cover('handshake-failed')
                    if hs == 'pending':
                        sym.cover('handshake-pending-at-close')
                if ev in seen:
                    sym.cover('replaced-connection')
                seen.append(ev)
                if len(set(seen)) > 1:
                    sym.cover('two-connections')
                net.incoming(srv.ss, addrs[ev])
            elif ev == 'service':
                srv.service()
            elif ev == 'peerclose':
                if srv.ixes:
                    ca = sorted(srv.ixes)[0]
                    srv.ixes[ca].cs.inq.append('eof')
                    sym.cover('peer-closed')
                srv.service()
            elif ev == 'reset':          # the peer resets: recv reports ECONNRESET and the kernel drops the connection
                if srv.ixes:
                    ca = sorted(srv.ixes)[0]
                    sk = srv.ixes[ca].cs
                    sk.inq.append(('err', ConnectionResetError(errno.ECONNRESET, 'reset')))
                    sk.dead = True
                    sym.cover('peer-reset')
                srv.service()
            elif ev == 'remove':
                if srv.ixes:
                    srv.removeIx(sorted(srv.ixes)[0])
        srv.close()
        lk = leaked(net)
        if lk:
            kinds = []
            for s_ in lk:
                if s_.kind == 'listen':
                    kinds.append('listen-socket')
                elif tls and any(cx.cs is s_ for cx in getattr(srv, 'cxes', {}).values()):
                    kinds.append('handshaking-connection')
                elif any(ix.cs is s_ for ix in srv.ixes.values()):
                    kinds.append('current-connection')
                else:
                    kinds.append('replaced-or-forgotten-connection')
            return Failure('%s:close-leaves-open:%s' % (part['cls'], '+'.join(sorted(set(kinds)))),
                           lambda: 'after close(): %d descriptors still open (%s); events %r' % (len(lk), kinds, did))
    return None


def harness_client(sym, part):
    net = fakenet.FakeNet()
    tls = part['cls'] == 'ClientTls'
    with fakenet.Patch(net, clienting):
        from hio.base import tyming
        tymist = tyming.Tymist(tyme=0.0)
        if tls:
            cl = clienting.ClientTls(ha=('127.0.0.1', 6101), context=fakenet.FakeCtx(script=['want-read'] * 3 + ['ok']), hostify=False,
                                     reconnectable=True, tymeout=1.0, tymth=tymist.tymen())
        else:
            cl = clienting.Client(ha=('127.0.0.1', 6101), reconnectable=True, tymeout=1.0, tymth=tymist.tymen())

        def on_socket(s):
            r = sym.choice('connect%d' % len(net.created), [0, errno.EINPROGRESS, errno.ECONNREFUSED]) if len(net.created) <= 2 else 0
            s.connect_results = [r] * 2 + [0] if r else []
            if r == errno.EINPROGRESS:
                sym.cover('client-reopen-while-connecting')
            if r == errno.ECONNREFUSED:
                sym.cover('client-refused-then-reopen')
        net.on_socket = on_socket
        did = []
        for i in range(part['events']):
            ev = 'reopen' if i == 0 else sym.choice('ev%d' % i, CEV)
            did.append(ev)
            if ev == 'reopen':
                cl.reopen()
            elif ev == 'service':
                cl.service()
            elif ev == 'tick':           # virtual time passes the reconnect tymeout
                tymist.tyme += 1.5
                if not cl.connected:
                    sym.cover('client-reconnect-timer-expired')
                cl.service()
            else:
                cl.close()
            lk = leaked(net)
            if ev == 'close' and lk:
                return Failure('%s:close-leaves-open' % part['cls'], lambda: 'after close(): %d descriptors open; events %r' % (len(lk), did))
            if len(lk) > 1:
                return Failure('%s:%s-leaves-earlier-socket-open' % (part['cls'], ev), lambda: 'after %s: %d descriptors open; events %r' % (ev, len(lk), did))
        cl.close()
        if leaked(net):
            return Failure('%s:close-leaves-open' % part['cls'], lambda: 'after final close(): descriptors open; events %r' % (did,))
    return None


def harness(sym, part):
    return harness_server(sym, part) if part['cls'].startswith('Server') else harness_client(sym, part)


MUTANTS = [
    ('remoter-close-no-close', 'hio/core/tcp/serving.py', "            self.shutdown()\n            self.cs.close()  #close socket\n            self.cs = None\n\n\n    def refresh(self):",
     "            self.shutdown()\n            self.cs = None\n\n\n    def refresh(self):"),
    ('acceptor-close-only-when-opened', 'hio/core/tcp/serving.py',
     "        if self.ss:\n            try:\n                self.ss.shutdown(socket.SHUT_RDWR)  # shutdown socket",
     "        if self.opened:\n            try:\n                self.ss.shutdown(socket.SHUT_RDWR)  # shutdown socket"),
]
