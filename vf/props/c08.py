"""C08 — timers measure elapsed tyme exactly and restart losslessly (Tymer; MonoTimer monotone under backward steps)"""
from vf.engine.base import Failure
from vf.stubs.fakeclock import FakeClock
from hio.base import tyming
from hio.help import timing

ID = 'C08'
EXPLANATION = ("(A) Tymer over a real Tymist: symbolic duration and start offset, then a bounded sequence of operations chosen by the "
               "driver/solver - advance tyme by a symbolic real (incl. rewinds), start(duration?, start?), restart(duration?), read - "
               "each followed by a read-back against a four-line reference (start, stop): elapsed = now-start, remaining = stop-now, "
               "expired <=> now >= stop, restart's new start = old stop; plus the inductive step from an arbitrary (_start,_stop,tyme). "
               "(B) the wall-clock MonoTimer with hio.help.timing.time replaced by a FakeClock whose readings advance by symbolic "
               "increments and step BACKWARDS by symbolic amounts: within a period (between starts/restarts) elapsed never decreases, "
               "expired never reverts to False, whatever property is read first after the step; restart begins at the previous stop.")
FUNCTIONS = [('hio.base.tyming', 'Tymer.__init__'), ('hio.base.tyming', 'Tymer.start'), ('hio.base.tyming', 'Tymer.restart'),
             ('hio.base.tyming', 'Tymer.elapsed'), ('hio.base.tyming', 'Tymer.remaining'), ('hio.base.tyming', 'Tymer.expired'),
             ('hio.base.tyming', 'Tymer.wind'), ('hio.help.timing', 'MonoTimer.latest'), ('hio.help.timing', 'MonoTimer.elapsed'),
             ('hio.help.timing', 'MonoTimer.remaining'), ('hio.help.timing', 'MonoTimer.expired'), ('hio.help.timing', 'Timer.start'),
             ('hio.help.timing', 'Timer.restart')]
BOUNDS = {'quick': dict(ops=3, mono_ops=4, budget_s=150, audit_max=8), 'thorough': dict(ops=4, mono_ops=5, budget_s=1200, audit_max=20)}
OUTSIDE = ['IEEE-754 rounding', 'forward clock jumps (documented as undetectable)', 'MonoTimer(retro=False)', 'more than `ops` operations per history '
           '(the Tymer inductive step covers histories of any length)']
STUBS = ['FakeClock for time.time seen by hio.help.timing (true time advances by symbolic d>=0 per read; reading = true time + offset; '
         'offset drops by symbolic j>=0 at solver-chosen reads)']
ASSUMPTIONS = ['reals for floats', 'durations in [0, 8], tymes in [-8, 8], clock increments in [0, 1/4], backward steps in [0, 2]']
REQUIRED_TAGS = ['rewind', 'restart-late', 'restart-early', 'start-with-explicit-start', 'zero-duration', 'backward-step-while-expired',
                 'backward-step-larger-than-elapsed', 'expired-read-first-after-step']
RULE = 'tags: tyme rewinds, restarts before/after the stop, explicit start offsets, zero durations, backward clock steps while expired / larger than elapsed'
TOPS = ['advance', 'start', 'start_d', 'start_s', 'start_ds', 'restart', 'restart_d', 'wind']
MOPS = ['elapsed', 'remaining', 'expired', 'latest', 'restart']
MOPS_LATER = ['elapsed', 'expired', 'restart']


def partitions(tier):
    b = BOUNDS[tier]
    ps = [dict(name='tymer-step-' + op, form='tstep', op=op) for op in TOPS]
    ps += [dict(name='tymer-hist-first-' + op, form='thist', first=op, ops=b['ops']) for op in TOPS]
    for first in MOPS:
        for steps in ((0, 1) if tier == 'quick' else (0, 1, 2)):
            ps.append(dict(name='mono-%s-steps%d' % (first, steps), form='mono', first=first, steps=steps,
                           ops=b['mono_ops'] if steps < 2 else b['mono_ops'] - 1))
    return ps


class Ref:
    def __init__(self, start, stop):
        self.start, self.stop = start, stop


def apply_tymer(sym, tymist, tymer, ref, op, i):
    now = tymist.tyme
    if op == 'advance':
        dt = sym.real('dt%d' % i, -4, 4)
        sym.cover_if('rewind', dt < 0)
        tymist.tyme = now + dt
    elif op.startswith('start'):
        d = sym.real('dur%d' % i, 0, 8) if 'd' in op[5:] else None
        s = sym.real('st%d' % i, -8, 8) if op.endswith('s') and op != 'start' else None
        if s is not None:
            sym.cover('start-with-explicit-start')
        if d is not None:
            sym.cover_if('zero-duration', d == 0)
        ret = tymer.start(duration=d, start=s)
        dur = d if d is not None else ref.stop - ref.start
        ref.start = s if s is not None else now
        ref.stop = ref.start + dur
        if ret != ref.start:
            return Failure('tymer:start-return', lambda: 'start() returned %r expected %r' % (ret, ref.start))
    elif op.startswith('restart'):
        d = sym.real('dur%d' % i, 0, 8) if op.endswith('_d') else None
        sym.cover_if('restart-late', now > ref.stop)
        sym.cover_if('restart-early', now < ref.stop)
        old_stop = ref.stop
        ret = tymer.restart(duration=d)
        dur = d if d is not None else ref.stop - ref.start
        ref.start = old_stop
        ref.stop = ref.start + dur
        if ret != old_stop or tymer._start != old_stop:
            return Failure('tymer:restart-not-at-previous-stop', lambda: 'restart at tyme %r: new start %r, previous stop %r' % (now, tymer._start, old_stop))
    elif op == 'wind':      # re-basing on another tymist restarts at that tymist's tyme, keeping the duration
        other = tyming.Tymist(tyme=sym.real('wt%d' % i, -8, 8))
        dur = ref.stop - ref.start
        tymer.wind(other.tymen())
        tymist.tyme = other.tyme
        tymer.wind(tymist.tymen())
        ref.start = tymist.tyme
        ref.stop = ref.start + dur
    return None


def readback(tymist, tymer, ref, where):
    now = tymist.tyme
    if tymer.elapsed != now - ref.start:
        return Failure('tymer:elapsed:' + where, lambda: 'elapsed %r expected %r' % (tymer.elapsed, now - ref.start))
    if tymer.remaining != ref.stop - now:
        return Failure('tymer:remaining:' + where, lambda: 'remaining %r expected %r' % (tymer.remaining, ref.stop - now))
    if tymer.expired != (now >= ref.stop):
        return Failure('tymer:expired:' + where, lambda: 'expired %r at now=%r stop=%r' % (tymer.expired, now, ref.stop))
    if tymer.duration != ref.stop - ref.start:
        return Failure('tymer:duration:' + where, lambda: 'duration %r expected %r' % (tymer.duration, ref.stop - ref.start))
    return None


def harness_tymer(sym, part):
    tymist = tyming.Tymist(tyme=sym.real('tyme0', -8, 8))
    if part['form'] == 'tstep':       # arbitrary pre-state written directly
        tymer = tyming.Tymer(tymth=tymist.tymen())
        s0 = sym.real('pre_start', -8, 8)
        d0 = sym.real('pre_dur', 0, 8)
        tymer._start, tymer._stop = s0, s0 + d0
        ref = Ref(s0, s0 + d0)
        f = readback(tymist, tymer, ref, 'pre')
        if f:
            return f
        f = apply_tymer(sym, tymist, tymer, ref, part['op'], 0) or readback(tymist, tymer, ref, part['op'])
        return f
    d0 = sym.real('idur', 0, 8)
    s0 = sym.real('istart', -8, 8)
    use_s = sym.cbool('explicit_start0')
    sym.cover_if('zero-duration', d0 == 0)
    tymer = tyming.Tymer(tymth=tymist.tymen(), duration=d0, start=s0 if use_s else None)
    ref = Ref(s0 if use_s else tymist.tyme, 0)
    ref.stop = ref.start + d0
    f = readback(tymist, tymer, ref, 'init')
    if f:
        return f
    for i in range(part['ops']):
        op = part['first'] if i == 0 else sym.choice('op%d' % i, TOPS)
        f = apply_tymer(sym, tymist, tymer, ref, op, i) or readback(tymist, tymer, ref, op)
        if f:
            return f
    return None


def harness_mono(sym, part):
    n = part['ops']
    # backward steps at solver-chosen read positions (construction itself makes 2 reads)
    pos = []
    for k in range(part['steps']):
        pos.append(sym.cint('step_pos%d' % k, (pos[-1] + 1) if pos else 0, 2 + 2 * n))
    clock = FakeClock(sym, max_reads=3 + 2 * n, step_at=pos)
    saved = timing.time
    timing.time = clock
    try:
        dur = sym.real('dur', 0, 2)
        t = timing.MonoTimer(duration=dur)
        last_el = None
        was_expired = False
        tau_start = clock.tau
        for i in range(n):
            op = part['first'] if i == 0 else sym.choice('op%d' % i, MOPS_LATER)
            jbefore = clock.jsum
            if op == 'restart':
                old_stop = t._stop
                t.restart()
                if t._start != old_stop:
                    return Failure('mono:restart-not-at-previous-stop', lambda: 'restart: start %r previous stop %r' % (t._start, old_stop))
                last_el, was_expired = None, False
                continue
            if op == 'expired':
                ex = t.expired
                if clock.jsum != jbefore:
                    sym.cover('expired-read-first-after-step')
                    if was_expired:
                        sym.cover('backward-step-while-expired')
                if was_expired and not ex:
                    return Failure('mono:expired-reverted', lambda: 'expired reverted to False at read %d (backward steps so far %r)' % (clock.reads, clock.jsum))
                was_expired = was_expired or ex
                continue
            if op == 'latest':
                t.latest
            if op == 'remaining':
                t.remaining
            el = t.elapsed
            if last_el is not None:
                sym.cover_if('backward-step-larger-than-elapsed', clock.jsum > last_el, clock.jsum > jbefore)
                if el < last_el:
                    return Failure('mono:elapsed-decreased', lambda: 'elapsed went from %r to %r (steps %r)' % (last_el, el, clock.jsum))
            last_el = el
            ex = t.expired
            if was_expired and not ex:
                return Failure('mono:expired-reverted', lambda: 'expired reverted to False after reading %s' % op)
            was_expired = was_expired or ex
    finally:
        timing.time = saved
    return None


def harness(sym, part):
    if part['form'] in ('tstep', 'thist'):
        return harness_tymer(sym, part)
    return harness_mono(sym, part)


MUTANTS = [
    ('tymer-restart-from-now', 'hio/base/tyming.py', "        return self.start(duration=duration, start=self._stop)", "        return self.start(duration=duration, start=max(self._stop, self.tyme))"),
    ('mono-latest-no-stop-shift', 'hio/help/timing.py', "                self._start += delta\n                self._stop += delta\n", "                self._start += delta\n"),
]
