"""C02 — forced exits are nested: reverse enter order, children before parent (same exploration as C01, other oracle)"""
from vf.props import c01
from vf.props.c01 import FUNCTIONS, BOUNDS, STUBS, ASSUMPTIONS, RULE, SHAPES, KINDS  # noqa

ID = 'C02'
EXPLANATION = ("Same fault-budgeted exploration of the real Doist/DoDoer as C01 (driver fixes shape, faulting doer and act; fault step, "
               "completion steps, limit, targets symbolic/solver-chosen). Oracle, per scheduler (the Doist and every DoDoer): within every "
               "teardown episode (the final stop of the run - limit, exception, KeyboardInterrupt, parent closing - and every runtime "
               "remove() call) the exit events of its force-closed (ceased) direct children come in the reverse of their enter order; a "
               "DoDoer's children exit before the DoDoer itself; every entered doer has exited (no generator left suspended, strong "
               "references held so garbage collection cannot mask a leak) before do() returns or raises.")
OUTSIDE = c01.OUTSIDE
REQUIRED_TAGS = ['controller-extends-idle-always-dodoer', 'fault-mid-cycle-with-doers-on-both-sides', 'exit-after-extend-from-inside', 'limit-stop',
                 'parent-closed-with-live-children', 'removed-while-due', 'raise-in-recur', 'kbd-interrupt']


def partitions(tier):
    return c01.partitions(tier, oracle='c02')


harness = c01.harness

MUTANTS = [
    ('doist-exit-fifo', 'hio/base/doing.py',
     "            dog, retime, doer = deeds.pop()  # pop it off in reverse (right side)\n            if not dog:  # marker deed\n                continue  # skip marker\n            try:\n                done = dog.close()  # force GeneratorExit. Maybe log exit tock tyme",
     "            dog, retime, doer = deeds.popleft()\n            if not dog:  # marker deed\n                continue  # skip marker\n            try:\n                done = dog.close()  # force GeneratorExit. Maybe log exit tock tyme"),
]
