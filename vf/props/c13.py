"""C13 — HTTP message parsing does not depend on how bytes are fragmented"""
from vf.engine.base import Failure
from vf.kits import httpkit
from hio.core.http import httping, clienting, serving

ID = 'C13'
CRLF, LF = b'\r\n', b'\n'
EXPLANATION = ("Layer 1, primitives on FULLY SYMBOLIC buffers: httping.parseLine with every end-of-line tuple the message parsers use "
               "((CRLF,LF) for start/header/trailer lines, (CRLF,) for chunk size/end lines), parseLeader and parseChunk are fed a symbolic "
               "byte string (alphabet CR LF ':' ' ' ';' '0' '1' 'a', length fixed per partition) whole and cut at a SYMBOLIC position "
               "(and byte-at-a-time); yielded values, raised exception type and unconsumed remainder must agree - every find()/compare "
               "inside hio is a z3 query. Inputs are classed in z3 as CRLF-terminated (every LF preceded by CR), LF-terminated (no CR) or "
               "mixed. Layer 2, whole messages: real serving.Requestant / clienting.Respondent on templates (request with content-length "
               "body, chunked request with extension and trailer, pipelined pair, responses with content-length / chunked / "
               "close-delimited body), terminator style CRLF or bare LF per message, a few header-value / chunk-data fillers, fed "
               "whole vs cut at every position (solver-chosen, enumerated) vs one byte at a time; start line, headers, body, trailers, "
               "chunk parameters, persistence decision, error state and leftover bytes must agree.")
FUNCTIONS = [('hio.core.http.httping', 'parseLine'), ('hio.core.http.httping', 'parseLeader'), ('hio.core.http.httping', 'parseChunk'),
             ('hio.core.http.httping', 'Parsent.parseMessage'), ('hio.core.http.httping', 'Parsent.parse'),
             ('hio.core.http.serving', 'Requestant.parseHead'), ('hio.core.http.serving', 'Requestant.parseBody'),
             ('hio.core.http.clienting', 'Respondent.parseHead'), ('hio.core.http.clienting', 'Respondent.parseBody')]
BOUNDS = {'quick': dict(prim_len=4, hole=2, budget_s=150, audit_max=6), 'thorough': dict(prim_len=5, hole=3, budget_s=1200, audit_max=20)}
OUTSIDE = ['primitive inputs longer than the bound / outside the 8-letter alphabet', 'messages other than the templates', 'more than one cut per feed besides byte-at-a-time',
           'server-sent-event bodies (C15)']
STUBS = []
ASSUMPTIONS = ['well-formed messages use one terminator style per message (CRLF or bare LF); per-line mixtures are explored separately and reported under their own signature']
REQUIRED_TAGS = ['split-inside-CRLF', 'one-byte-reads', 'chunk-extension', 'trailer', 'pipelined', 'close-delimited', 'bare-LF-message', 'mixed-endings-input', 'cut-inside-body', 'cut-inside-chunk-size-line']
RULE = 'tags: cuts between CR and LF, 1-byte reads, chunk extensions, trailers, pipelined pairs, close-delimited responses, LF-only messages, mixed per-line endings'
ALPHA = b'\r\n: ;01a'
PRIMS = [('line', (CRLF, LF)), ('line', (CRLF,)), ('leader', (CRLF, LF)), ('chunk', None)]


def partitions(tier):
    b = BOUNDS[tier]
    ps = []
    for kind, eols in PRIMS:
        for n in range(2, b['prim_len'] + 1):
            for cls in (('crlf', 'lf', 'mixed') if eols != (CRLF,) and kind != 'chunk' else ('any',)):
                ps.append(dict(name='prim-%s-%s-len%d-%s' % (kind, 'x'.join('CRLF' if e == CRLF else 'LF' for e in (eols or ())) or 'chunk', n, cls),
                               form='prim', kind=kind, eols=[e.decode('latin1') for e in eols] if eols else None, n=n, cls=cls))
    for t in TEMPLATES:
        for style in (('crlf', 'lf') if 'chunked' not in t else ('crlf',)):      # chunk framing itself requires CRLF
            ps.append(dict(name='msg-%s-%s' % (t, style), form='msg', template=t, style=style, hole=b['hole']))
    return ps


def harness_prim(sym, part):
    n = part['n']
    data = sym.bytes('data', n, alphabet=ALPHA, minlen=n)
    eols = tuple(e.encode('latin1') for e in part['eols']) if part['eols'] else None
    if part['cls'] == 'crlf':       # every LF is preceded by CR
        sym.constrain(data[0] != 10)
        for i in range(1, n):
            sym.constrain_any([data[i] != 10, data[i - 1] == 13])
    elif part['cls'] == 'lf':       # no CR at all
        for i in range(n):
            sym.constrain(data[i] != 13)
    elif part['cls'] == 'mixed':    # a bare LF somewhere and a CR LF pair somewhere
        sym.constrain_any([z for i in range(n) for z in ([data[0] == 10] if i == 0 else [])] + [data[i] == 10 for i in range(1, n)])
        sym.cover('mixed-endings-input')
    cut = sym.int('cut', 1, n - 1)
    whole = httpkit.run_primitive(part['kind'], eols, [data])
    two = httpkit.run_primitive(part['kind'], eols, [data[:cut], data[cut:]])
    ones = httpkit.run_primitive(part['kind'], eols, [data[i:i + 1] for i in range(n)])
    sym.cover('one-byte-reads')
    sym.cover_if('split-inside-CRLF', data[cut - 1] == 13, data[cut] == 10)
    tag = '%s:%s' % (part['kind'], '+'.join('CRLF' if e == CRLF else 'LF' for e in (eols or ())) or 'chunk')
    if part['cls'] == 'mixed':
        tag += ':mixed-line-endings'
    # on malformed input (an exception) only the error state has to agree: what is left in the buffer after a
    # rejected message is not part of the result (the connection is dropped)
    if whole[1] is not None:
        whole, two, ones = whole[1], two[1], ones[1]
    if whole != two:
        return Failure('primitive:%s:whole-vs-cut' % tag, lambda: '%s(eols=%r) on %r: whole %r, cut at %r gives %r' % (part['kind'], eols, bytes(data), whole, cut, two))
    if whole != ones:
        return Failure('primitive:%s:whole-vs-bytewise' % tag, lambda: '%s(eols=%r) on %r: whole %r, byte at a time %r' % (part['kind'], eols, bytes(data), whole, ones))
    return None


# ---- layer 2 --------------------------------------------------------------------------------------

def T_req_len(e, h):
    return [b'POST /a/b?x=1 HTTP/1.1' + e + b'Host: h' + e + b'X-H: ' + h + e + b'Content-Length: 5' + e + e + b'hello'], 'req', False


def T_req_chunked(e, h):
    return [b'PUT /c HTTP/1.1' + e + b'Host: h' + e + b'Transfer-Encoding: chunked' + e + e +
            b'3;ext=1\r\nabc\r\n' + b'2\r\n' + h[:2].ljust(2, b'z') + b'\r\n' + b'0\r\nX-T: v' + e + e], 'req', False


def T_req_pipelined(e, h):
    return [b'GET /one HTTP/1.1' + e + b'Host: h' + e + e + b'POST /two HTTP/1.1' + e + b'Content-Length: 3' + e + b'X-H: ' + h + e + e + b'abc' +
            b'GET /three HTTP/1.0' + e + e], 'req3', False


def T_resp_len(e, h):
    return [b'HTTP/1.1 200 OK' + e + b'Content-Length: 4' + e + b'X-H: ' + h + e + e + b'body'], 'resp', False


def T_resp_chunked(e, h):
    return [b'HTTP/1.1 200 OK' + e + b'Transfer-Encoding: chunked' + e + e + b'4\r\nwxyz\r\n' + b'1;a=b;c\r\n' + h[:1].ljust(1, b'q') + b'\r\n0\r\nX-T: v' + e + e], 'resp', False


def T_resp_close(e, h):
    return [b'HTTP/1.0 200 OK' + e + b'X-H: ' + h + e + e + b'until-close'], 'resp', True


TEMPLATES = {'req-length': T_req_len, 'req-chunked': T_req_chunked, 'req-pipelined': T_req_pipelined, 'resp-length': T_resp_len,
             'resp-chunked': T_resp_chunked, 'resp-close': T_resp_close}


def harness_msg(sym, part):
    e = CRLF if part['style'] == 'crlf' else LF
    if part['style'] == 'lf':
        sym.cover('bare-LF-message')
    h = sym.choice('hole', [b'', b'a', b'a:1', b' ;'])      # concrete fillers: symbolic content is layer 1's job
    parts, kind, close = TEMPLATES[part['template']](e, h)
    data = b''.join(parts)
    n = len(data)
    nm = 3 if kind == 'req3' else 1

    class RemoterStub:
        tymeout = 5.0

    def make(msg):
        if kind.startswith('req'):
            return serving.Requestant(msg=msg, remoter=RemoterStub())
        return clienting.Respondent(msg=msg, method='GET')
    cut = sym.cint('cut', 1, n - 1)
    whole = httpkit.feed_messages(make, [data], nm, close_at_end=close)
    two = httpkit.feed_messages(make, [data[:cut], data[cut:]], nm, close_at_end=close)
    if data[cut - 1:cut + 1] == b'\r\n':
        sym.cover('split-inside-CRLF')
    if b'chunked' in data:
        sym.cover('chunk-extension')
        sym.cover('trailer')
        i = data.index(b'\r\n\r\n') if e == CRLF else data.index(b'\n\n')
        if cut > i + 2 and data[cut - 1:cut] in b'0123456789;=extabc':
            sym.cover('cut-inside-chunk-size-line')
    if kind == 'req3':
        sym.cover('pipelined')
    if close:
        sym.cover('close-delimited')
    if cut > n - 3:
        sym.cover('cut-inside-body')
    if not whole[0] or whole[0][0]['errored'] or whole[1]:
        return Failure('message:%s:%s:well-formed-message-rejected' % (part['template'], part['style']),
                       lambda: 'whole feed of %r gives %r' % (data, whole))
    if whole != two:
        return Failure('message:%s:%s:whole-vs-cut' % (part['template'], part['style']),
                       lambda: 'message %r cut at %d: whole %r, cut %r' % (data, cut, whole, two))
    if cut == 1:      # once per hole value: byte at a time
        ones = httpkit.feed_messages(make, [data[i:i + 1] for i in range(n)], nm, close_at_end=close)
        sym.cover('one-byte-reads')
        if whole != ones:
            return Failure('message:%s:%s:whole-vs-bytewise' % (part['template'], part['style']),
                           lambda: 'message %r: whole %r, byte at a time %r' % (data, whole, ones))
    return None


def harness(sym, part):
    return harness_prim(sym, part) if part['form'] == 'prim' else harness_msg(sym, part)


MUTANTS = [
    ('first-listed-terminator-wins', 'hio/core/http/httping.py',
     "            skip = False\n        index = -1  # not found index == -1\n        for e in eols:  # find earliest eol in raw, first in eols wins a tie\n            i = raw.find(e)\n            if i >= 0 and (index < 0 or i < index):",
     "            skip = False\n        index = -1  # not found index == -1\n        for e in eols:  # find earliest eol in raw, first in eols wins a tie\n            i = raw.find(e)\n            if i >= 0 and index < 0:"),
]
