"""C28 — data-object serializations round-trip losslessly"""
import copy
from vf.engine.base import Failure
from vf.kits import domkit_plain, domkit_future
from hio.help import doming

ID = 'C28'
EXPLANATION = ("Real dictify / datify / _asdict / _fromdict / _asjson.._frommgpk of RawDom, RegDom, TymeDom and the frozen IceRegDom on data-object "
               "classes defined in a module with eagerly evaluated annotations and in a module with `from __future__ import annotations` (as "
               "every hio module has). Form 'symbolic': field values are SYMBOLIC (unbounded ints, strings of <= 2 chars, a list of 0-2 symbolic "
               "ints, a dict with a symbolic value, an Any field holding None / int / str / list, a nested data object present or None); the "
               "three codecs are replaced by an identity codec on the representable domain so that the solver reasons about hio's own "
               "conversion code for all values. Form 'codec': the same objects with values chosen from a table of boundary values (+-2**63, "
               "2**64-1, 0.1, 1e308, -0.0, non-BMP and escaped strings, empty and nested containers) go through the REAL json / cbor2 / "
               "msgpack. Form 'reserialize': serialise, change a list / dict field value in place (possible on frozen objects too), serialise again. Form 'same-name': two different classes with the same module and qualified name. Oracle: the decoded object equals the original, has the same class, and a nested data object comes back as an "
               "instance of its class.")
FUNCTIONS = [('hio.help.doming', n) for n in ('dictify', 'datify', 'MapDom._fromdict', 'MapDom._asdict', 'RawDom._asjson', 'RawDom._fromjson', 'RawDom._ascbor', 'RawDom._fromcbor',
                                              'RawDom._asmgpk', 'RawDom._frommgpk', 'IceRawDom._asjson', 'IceRawDom._fromjson', 'IceRawDom._ascbor', 'IceRawDom._fromcbor',
                                              'IceRawDom._asmgpk', 'IceRawDom._frommgpk', 'IceMapDom._fromdict')]
BOUNDS = {'quick': dict(strlen=2, budget_s=150, audit_max=6), 'thorough': dict(strlen=3, budget_s=1200, audit_max=20)}
OUTSIDE = ['values outside the common representable domain (tuples, sets, bytes, non-string dict keys, NaN, ints beyond 64 bits for MessagePack)',
           'data objects nested inside lists or dicts (only direct field values are declared convertible by datify)', 'more than one level of nesting',
           'fields annotated with Optional / Union of a data-object class']
STUBS = ['form symbolic: identity codec (deep copy) in place of json / cbor2 / msgpack']
ASSUMPTIONS = ['form symbolic: the codec libraries round-trip values of the common representable domain (checked separately on the boundary table in form codec)']
REQUIRED_TAGS = ['nested-object', 'nested-none', 'postponed-annotations', 'eager-annotations', 'frozen', 'tyme-dom', 'any-field-str', 'list-field', 'real-json', 'real-cbor', 'real-msgpack', 'big-int', 'non-bmp-string', 'mutated-after-first-serialisation', 'same-qualified-name']
RULE = 'tags: nested object present / None, classes from a postponed-annotation module, frozen and tyme-stamped variants, the three real codecs, boundary ints and strings'
MODS = {'eager': domkit_plain, 'postponed': domkit_future}
TABLE = [0, -1, 2 ** 63 - 1, -2 ** 63, 2 ** 64 - 1, 0.1, 1e308, -0.0, 1.5, True, False, None, '', 'a', 'é', '\U0001F600', 'q"\\\n', [], [1, [2, 'x']], {}, {'k': {'z': [None]}}, {'a': 1, 's': 'x'}]


class IdCodec:
    """identity codec on the representable domain: what goes in comes out as an independent copy"""
    @staticmethod
    def dumps(d, **kw):
        return ('wire', copy.deepcopy(d))

    @staticmethod
    def loads(s, **kw):
        return s[1]


class IdJson(IdCodec):
    @staticmethod
    def dumps(d, **kw):
        class W:      # json.dumps(...).encode() is what hio calls
            def __init__(self, d):
                self.d = d

            def encode(self):
                return ('wire', self.d)
        return W(copy.deepcopy(d))


def partitions(tier):
    b = BOUNDS[tier]
    ps = []
    for mod in MODS:
        for fam in ('reg', 'ice', 'tyme', 'raw'):
            ps.append(dict(name='symbolic-%s-%s' % (mod, fam), form='symbolic', mod=mod, fam=fam, strlen=b['strlen']))
            for fieldname in ('n', 's', 'l', 'd', 'x', 'inner'):
                ps.append(dict(name='codec-%s-%s-%s' % (mod, fam, fieldname), form='codec', mod=mod, fam=fam, field=fieldname))
        for fam in ('reg', 'ice', 'tyme', 'raw'):
            ps.append(dict(name='reserialize-%s-%s' % (mod, fam), form='reserialize', mod=mod, fam=fam))
    ps.append(dict(name='same-qualified-name', form='same-name'))
    return ps


def roundtrips(Outer, Inner, o, nested, codecs):
    for enc, dec in codecs:
        try:
            wire = getattr(o, enc)()
            back = getattr(Outer, dec)(wire)
        except Exception as ex:      # noqa
            from vf.engine.symx_guard import guard
            guard(ex)
            return '%s:raises:%s' % (dec, type(ex).__name__), lambda enc=enc, dec=dec, ex=ex: '%s/%s raised %r' % (enc, dec, ex)
        if type(back) is not Outer:
            return '%s:wrong-class' % dec, lambda: '%s returned a %s' % (dec, type(back).__name__)
        if nested and not isinstance(back.i, Inner):
            return '%s:nested-object-comes-back-as-%s' % (dec, type(back.i).__name__), lambda: '%s: nested %s came back as %r' % (dec, Inner.__name__, back.i)
        if back != o:
            return '%s:not-equal' % dec, lambda: '%s: %r != %r' % (dec, back, o)
    return None


ALL = (('_asjson', '_fromjson'), ('_ascbor', '_fromcbor'), ('_asmgpk', '_frommgpk'))


def harness_symbolic(sym, part):
    Outer, Inner = MODS[part['mod']].FAMILIES[part['fam']]
    saved = (doming.json, doming.cbor, doming.msgpack)
    doming.json, doming.cbor, doming.msgpack = IdJson, IdCodec, IdCodec
    try:
        a, n, v = sym.int('a', -2 ** 70, 2 ** 70), sym.int('n', -2 ** 70, 2 ** 70), sym.int('v', -5, 5)
        s = sym.str('s', part['strlen'])
        t = sym.str('t', 1)
        nested = sym.cbool('nested')
        ll = sym.cint('listlen', 0, 2)
        xk = sym.choice('anyfield', ['none', 'int', 'str', 'list', 'dict-shaped-like-inner'])
        x = {'none': None, 'int': v, 'str': t, 'list': [v, t], 'dict-shaped-like-inner': {'a': v, 's': t}}[xk]
        o = Outer(i=(Inner(a=a, s=t) if nested else None), n=n, s=s, l=([v] * ll if ll else None), d={'k': v, 'j': [t]}, x=x)
        sym.cover('nested-object' if nested else 'nested-none')
        sym.cover('postponed-annotations' if part['mod'] == 'postponed' else 'eager-annotations')
        if part['fam'] == 'ice':
            sym.cover('frozen')
        if part['fam'] == 'tyme':
            sym.cover('tyme-dom')
        if xk == 'str':
            sym.cover('any-field-str')
        if ll:
            sym.cover('list-field')
        r = roundtrips(Outer, Inner, o, nested, ALL + (('_asdict', '_fromdict'),))
        if r:
            return Failure('%s:%s:%s' % (part['mod'], part['fam'], r[0]), r[1])
        return None
    finally:
        doming.json, doming.cbor, doming.msgpack = saved


def harness_codec(sym, part):
    Outer, Inner = MODS[part['mod']].FAMILIES[part['fam']]
    f = part['field']
    vi = sym.cint('value', 0, len(TABLE) - 1)
    val = TABLE[vi]
    kw = dict(n=1, s='s')
    nested = False
    if f == 'inner':
        if not isinstance(val, (int, str)) or isinstance(val, bool):
            sym.assume(False)
        kw['i'] = Inner(a=val, s='in') if isinstance(val, int) else Inner(a=7, s=val)
        nested = True
    elif f == 'n':
        if not isinstance(val, (int, float)) or isinstance(val, bool):
            sym.assume(False)
        kw['n'] = val
    elif f == 's':
        if not isinstance(val, str):
            sym.assume(False)
        kw['s'] = val
    elif f == 'l':
        kw['l'] = [val, val]
    elif f == 'd':
        kw['d'] = {'k': val, '': [val]}
    else:
        kw['x'] = val
    ci = sym.cint('codec', 0, 2)
    codec = ALL[ci]
    if codec[0] == '_asmgpk' and isinstance(val, int) and not -2 ** 63 <= val < 2 ** 64:
        sym.assume(False)
    sym.cover(['real-json', 'real-cbor', 'real-msgpack'][ci])
    if isinstance(val, int) and abs(val) >= 2 ** 63 - 1:
        sym.cover('big-int')
    if val == '\U0001F600':
        sym.cover('non-bmp-string')
    sym.cover('postponed-annotations' if part['mod'] == 'postponed' else 'eager-annotations')

    def run():
        o = Outer(**kw)
        r = roundtrips(Outer, Inner, o, nested, (codec,))
        if r:
            return Failure('%s:%s:%s' % (part['mod'], part['fam'], r[0]), 'field %s = %r: %s' % (f, val, r[1]()))
        return None
    return sym.untraced(run)


def harness_reserialize(sym, part):
    """serialise, change a mutable field value in place (also possible on a frozen object), serialise again"""
    Outer, Inner = MODS[part['mod']].FAMILIES[part['fam']]
    ci = sym.cint('codec', 0, 2)
    what = sym.choice('mutation', ['list-append', 'dict-set', 'nested-list-item'])
    first = sym.cint('first_codec', 0, 2)
    sym.cover('mutated-after-first-serialisation')
    if part['fam'] == 'ice':
        sym.cover('frozen')

    def run():
        o = Outer(i=Inner(a=1, s='s'), n=1, s='s', l=[1, [2]], d={'k': 1}, x=None)
        getattr(o, ALL[first][0])()
        getattr(o, ALL[ci][0])()
        if what == 'list-append':
            o.l.append(9)
        elif what == 'dict-set':
            o.d['new'] = 9
        else:
            o.l[1].append(9)
        r = roundtrips(Outer, Inner, o, True, (ALL[ci],))
        if r:
            return Failure('%s:%s:%s:after-in-place-change' % (part['mod'], part['fam'], r[0]), 'after %s: %s' % (what, r[1]()))
        return None
    return sym.untraced(run)


def harness_same_name(sym, part):
    """two different data-object classes with the same module and qualified name (created by one factory)"""
    from dataclasses import dataclass
    order = sym.cint('order', 0, 1)
    ci = sym.cint('codec', 0, 2)
    sym.cover('same-qualified-name')

    def run():
        def make(inner):
            @dataclass
            class Local(doming.RawDom):
                i: inner = None
                n: int = 0
            return Local
        pa, pb = domkit_plain.PInner, domkit_plain.PIceInner
        A, B = make(pa), make(pb)
        seq = [(A, pa), (B, pb)] if order == 0 else [(B, pb), (A, pa)]
        for (cls, inner) in seq:
            o = cls(i=inner(a=3, s='q'), n=4)
            r = roundtrips(cls, inner, o, True, (ALL[ci],))
            if r:
                return Failure('same-name:%s' % r[0], 'class %s with nested %s: %s' % (cls.__qualname__, inner.__name__, r[1]()))
        return None
    return sym.untraced(run)


def harness(sym, part):
    return {'symbolic': harness_symbolic, 'codec': harness_codec, 'reserialize': harness_reserialize, 'same-name': harness_same_name}[part['form']](sym, part)


MUTANTS = [
    ('datify-raw-field-types', 'hio/help/doming.py', "fieldtypes = {f.name: hints.get(f.name, f.type) for f in fields(cls)}", "fieldtypes = {f.name: f.type for f in fields(cls)}"),
    ('datify-no-recursion', 'hio/help/doming.py', "return cls(**{f: datify(fieldtypes[f], d[f]) for f in d})  # recursive", "return cls(**{f: d[f] for f in d})"),
    ('dictify-shallow', 'hio/help/doming.py', "    return asdict(val)", "    return {f.name: getattr(val, f.name) for f in fields(val)}"),
]
