"""./check Cxx [--tier quick|thorough] [--twin] [--selftest] [--replay FILE] [--parts a,b] [--jobs N]

exit 0  property held on everything explored (KNOWN-FINDING lines possible, INCONCLUSIVE possible)
exit 1  VIOLATION property=<id> replay=<path>   (a replayed, not-known violation)
exit 3  HARNESS-ERROR (machinery fault: vacuous run, non-reproducing counterexample, audit mismatch, crash)
"""
import argparse
import hashlib
import inspect
import json
import os
import subprocess
import sys
import time

from vf.engine import par
from vf.engine.base import dump_json, dec

VERIF = '/verif'
SRC = os.environ.get('VF_SRC', '/repo/src')
EVID_DIR = os.environ.get('VF_EVIDENCE_DIR', os.path.join(VERIF, 'evidence'))
REPLAY_DIR = os.environ.get('VF_REPLAY_DIR', os.path.join(VERIF, 'replays'))
FINDINGS = os.path.join(VERIF, 'known_findings.txt')


def read_findings(pid):
    known, fixed = {}, []
    if os.path.exists(FINDINGS):
        for line in open(FINDINGS):
            line = line.strip()
            if not line or line.startswith('#'):
                continue
            kind, _, rest = line.partition(':')
            toks = rest.split()
            if not toks or toks[0] != 'property=' + pid:
                continue
            if kind == 'known' and len(toks) >= 2 and toks[1].startswith('signature='):
                known[toks[1][len('signature='):]] = ' '.join(toks[2:])
            elif kind == 'fixed':
                fixed.append(' '.join(toks[1:]))
    return known, fixed


def functions_encoded(mod):
    import importlib
    out = []
    for modname, qual in getattr(mod, 'FUNCTIONS', []):
        try:
            m = importlib.import_module(modname)
            obj = m
            for a in qual.split('.'):
                obj = getattr(obj, a)
            if isinstance(obj, property):
                obj = obj.fget
            obj = inspect.unwrap(obj)
            lines, start = inspect.getsourcelines(obj)
            f = os.path.relpath(inspect.getsourcefile(obj), os.path.dirname(SRC))
            out.append('%s.%s (%s:%d-%d)' % (modname, qual, f, start, start + len(lines) - 1))
        except Exception as ex:
            out.append('%s.%s (unresolved: %s)' % (modname, qual, ex))
    return out


def replay_in_fresh_process(path):
    """returns (reproduced: bool|None, output)"""
    env = dict(os.environ)
    env.pop('MULTIDICT_NO_EXTENSIONS', None)     # replays use the default (C) multidict
    p = subprocess.run([sys.executable, '-m', 'vf.replay', path], capture_output=True, text=True, env=env,
                       timeout=600)
    out = (p.stdout + p.stderr).strip()
    if p.returncode == 0:
        return True, out
    if p.returncode == 4:
        return False, out
    return None, out


def main(argv=None):
    ap = argparse.ArgumentParser()
    ap.add_argument('pid')
    ap.add_argument('--tier', default=os.environ.get('VERIF_TIER', 'quick'), choices=['quick', 'thorough'])
    ap.add_argument('--twin', action='store_true')
    ap.add_argument('--selftest', action='store_true')
    ap.add_argument('--replay')
    ap.add_argument('--parts', help='comma separated partition names (debug)')
    ap.add_argument('--jobs', type=int)
    ap.add_argument('--budget', type=float, help='override per-partition CPU budget (debug)')
    ap.add_argument('--verbose', '-v', action='store_true')
    a = ap.parse_args(argv)
    pid = a.pid.upper()
    seed = int(os.environ.get('VERIF_SEED', '0') or 0)
    t0 = time.perf_counter()
    par._assert_tree()
    mod = par.load(pid)

    if a.replay:
        ok, out = replay_in_fresh_process(a.replay)
        print(out)
        if ok:
            print("VIOLATION property=%s replay=%s" % (pid, a.replay))
            return 1
        print("replay did not reproduce" if ok is False else "replay failed to run")
        return 0 if ok is False else 3

    if a.selftest:
        from vf.engine import selftest
        return selftest.run(pid, mod, a.tier)

    known, fixed = read_findings(pid)
    parts = mod.partitions(a.tier)
    for p in parts:
        p.setdefault('name', json.dumps({k: v for k, v in p.items() if k != 'budget_s'}, sort_keys=True))
    if a.parts:
        want = set(a.parts.split(','))
        parts = [p for p in parts if p['name'] in want]
    bounds = mod.BOUNDS[a.tier]
    opts = dict(budget_s=a.budget or bounds.get('budget_s', 60.0), per_path_timeout=bounds.get('per_path_timeout', 20.0),
                known_sigs=sorted(known), max_new_sigs=3, n_samples=1, seed=seed, twin=a.twin,
                audit_max=bounds.get('audit_max', 8), tier=a.tier)
    if a.budget:
        for p in parts:
            p.pop('budget_s', None)

    def progress(r):
        if a.verbose:
            print("  part %-40s paths=%-6d exh=%s unk=%d viol=%s cpu=%.1fs %s" % (
                r['part']['name'][:40], r['paths'], r['exhausted'], r['unknown'], sorted(r['violations']),
                r.get('cpu_s', 0), ('ERR ' + r['errors'][0][:300]) if r['errors'] else ''), flush=True)

    results = par.run_all(pid, parts, opts, jobs=a.jobs, progress=progress)

    # ---- aggregate
    tot = dict(paths=0, confirmed=0, unknown=0, ignored=0, viol_paths=0, nontrivial=0, queries=0, solver_s=0.0,
               cpu_s=0.0, audit_checked=0)
    tags, samples, errors, unknown_reasons, audit_mis = {}, [], [], {}, []
    viols = {}
    not_exhausted = []
    for r in results:
        for k in ('paths', 'confirmed', 'unknown', 'ignored', 'viol_paths', 'nontrivial', 'queries', 'solver_s', 'cpu_s'):
            tot[k] += r.get(k, 0)
        tot['audit_checked'] += r['audit']['checked']
        audit_mis += [dict(m, part=r['part']['name']) for m in r['audit']['mismatches']]
        for t, c in r['tags'].items():
            tags[t] = tags.get(t, 0) + c
        for s in r['samples']:
            if len(samples) < 5:
                samples.append(dict(s, partition=r['part']['name']))
        errors += ['[%s] %s' % (r['part']['name'], e) for e in r['errors']]
        for k, c in r.get('unknown_reasons', {}).items():
            unknown_reasons[k] = unknown_reasons.get(k, 0) + c
        for sig, cex in r['violations'].items():
            viols.setdefault(sig, cex)
        if not r['exhausted'] and not r['errors']:
            not_exhausted.append(r['part']['name'])
    exhaustive = not not_exhausted and tot['unknown'] == 0 and not errors

    rc = 0
    lines = []
    # ---- twin mode: every partition must reach the assertion
    if a.twin:
        bad = [r['part']['name'] for r in results if 'twin' not in r['violations']]
        if bad or errors:
            print("HARNESS-ERROR: reachability twin not violated in partitions %s %s" % (bad, errors[:1]))
            return 3
        print("TWIN-OK property=%s partitions=%d (final assertion reachable in each)" % (pid, len(results)))
        return 0

    # ---- violations: replay, classify
    os.makedirs(REPLAY_DIR, exist_ok=True)
    known_hit, new_viol, unrepro = [], [], []
    for sig, cex in sorted(viols.items()):
        cex = dict(cex, property_id=pid, tier=a.tier)
        h = hashlib.sha1(json.dumps(cex, sort_keys=True, default=repr).encode()).hexdigest()[:10]
        path = os.path.join(REPLAY_DIR, '%s-%s.json' % (pid, h))
        dump_json(path, cex)
        ok, out = replay_in_fresh_process(path)
        if ok is not True:
            unrepro.append((sig, path, out))
            continue
        if sig in known:
            known_hit.append((sig, known[sig]))
            os.remove(path)
        else:
            new_viol.append((sig, path, cex.get('why', '')))

    req = getattr(mod, 'REQUIRED_TAGS', [])
    if isinstance(req, dict):
        req = req.get(a.tier, req.get('all', []))
    missing_tags = [t for t in req if not tags.get(t)]

    for sig, text in known_hit:
        lines.append("KNOWN-FINDING: property=%s %s [signature=%s]" % (pid, text, sig))
    for sig, path, why in new_viol:
        lines.append("VIOLATION property=%s replay=%s" % (pid, path))
        lines.append("  signature=%s :: %s" % (sig, why[:600]))
        rc = 1
    harness_err = []
    for sig, path, out in unrepro:
        harness_err.append("counterexample signature=%s did not reproduce in concrete replay (%s): %s" % (sig, path, out[-400:]))
    if errors:
        harness_err += errors[:3]
    if audit_mis:
        harness_err.append("path fidelity audit: %d mismatches, first: %s" % (len(audit_mis), json.dumps(audit_mis[0], default=repr)[:600]))
    if missing_tags and not a.parts and not new_viol:
        harness_err.append("vacuous: required coverage tags never hit: %s" % (missing_tags,))
    if harness_err and rc == 0:
        rc = 3
    for e in harness_err:
        lines.append("HARNESS-ERROR: " + e)
    if not exhaustive and rc == 0:
        lines.append("INCONCLUSIVE: property=%s not exhausted within budget: partitions=%s unknown_leaves=%d %s" % (
            pid, not_exhausted[:6], tot['unknown'], dict(list(unknown_reasons.items())[:3])))

    wall = time.perf_counter() - t0
    import z3
    cov = dict(
        explanation=mod.EXPLANATION,
        technique='symbolic execution of the real hio functions (CrossHair core, z3 decides every branch); '
                  'verdict = exhausted path tree with no unknown leaf' if not hasattr(mod, 'TECHNIQUE') else mod.TECHNIQUE,
        functions_encoded=functions_encoded(mod),
        bounds=bounds, outside_claim=getattr(mod, 'OUTSIDE', []),
        partitions=[dict(name=r['part']['name'], paths=r['paths'], exhausted=r['exhausted'], unknown=r['unknown'],
                         cpu_s=round(r.get('cpu_s', 0), 2), queries=r.get('queries', 0)) for r in results],
        evaluations=tot['paths'], distinct_nontrivial=tot['nontrivial'],
        rule='one evaluation = one explored path of the symbolic path tree (a distinct path condition covering all '
             'input values that satisfy it); non-trivial = the path ended at the final assertion (not pruned by an '
             'assumption) and hit at least one coverage tag of the situations the property is about; '
             + getattr(mod, 'RULE', ''),
        samples=samples if samples else [dict(note='no held path sampled', violations=sorted(viols))],
        exhaustive=bool(exhaustive), unknown_leaves=tot['unknown'], unknown_reasons=unknown_reasons,
        ignored_paths=tot['ignored'],
        solver=dict(queries=tot['queries'], solver_s=round(tot['solver_s'], 2), z3_version=z3.get_version_string()),
        cpu_s=round(tot['cpu_s'], 1),
        stubs=getattr(mod, 'STUBS', []), coverage_tags=tags,
        required_tags=req,
        fidelity_audit=dict(leaves_rerun_concretely=tot['audit_checked'], mismatches=len(audit_mis)),
        known_findings_hit=[s for s, _ in known_hit], fixed_findings=fixed,
        violating_paths=tot['viol_paths'], violation_signatures=sorted(viols),
        new_violations=[dict(signature=s, replay=p) for s, p, _ in new_viol],
        harness_errors=harness_err,
        solver_role=getattr(mod, 'SOLVER_ROLE', 'decides branches over symbolic values'),
    )
    ev = dict(property_id=pid, tier=a.tier, seed=seed, level='other', coverage=cov,
              assumptions=getattr(mod, 'ASSUMPTIONS', []), wall_s=round(wall, 2), violations=len(new_viol))
    os.makedirs(EVID_DIR, exist_ok=True)
    evpath = os.path.join(EVID_DIR, pid + '.json')
    dump_json(evpath, ev)
    try:
        import jsonschema
        schema = json.load(open('/root/.vp/EVIDENCE.schema.json')) if os.path.exists('/root/.vp/EVIDENCE.schema.json') \
            else json.load(open(os.path.join(VERIF, 'vf', 'EVIDENCE.schema.json')))
        jsonschema.validate(json.load(open(evpath)), schema)
    except Exception as ex:
        lines.append("HARNESS-ERROR: evidence does not validate: %s" % (str(ex)[:300],))
        rc = rc or 3

    print("%s tier=%s partitions=%d paths=%d confirmed=%d ignored=%d unknown=%d exhaustive=%s queries=%d solver=%.1fs cpu=%.1fs wall=%.1fs" % (
        pid, a.tier, len(results), tot['paths'], tot['confirmed'], tot['ignored'], tot['unknown'], exhaustive,
        tot['queries'], tot['solver_s'], tot['cpu_s'], wall))
    print("coverage tags: %s" % (json.dumps(tags, sort_keys=True),))
    for ln in lines:
        print(ln)
    if rc == 0:
        print("OK property=%s held on everything explored%s" % (pid, '' if exhaustive else ' (bound NOT exhausted: inconclusive)'))
    return rc


if __name__ == '__main__':
    sys.exit(main())
