"""FakeLMDB: pure-Python stand-in for the part of the lmdb API used by hio.base.during (sorted key list + dict per named
sub-database, atomic write transactions, cursor moves).  Outside the cursor-usage envelope it was validated for it raises
AssertionError instead of guessing.  It is only used under the symbolic engine: every counterexample and the sampled audit
leaves are re-run on the REAL lmdb, so a stub infidelity shows up as a harness error, never as a verdict."""
import bisect

class Error(Exception): pass
class BadValsizeError(Error): pass
class ReadonlyError(Error): pass

_STORES = {}   # path -> {dbname: (keys sorted list, dict)}

MAXKEY = 511

class _DB:
    def __init__(self, name): self.name = name

def _chk(key):
    if len(key) == 0 or len(key) > MAXKEY:
        raise BadValsizeError("mdb_put: MDB_BAD_VALSIZE")

class Environment:
    def __init__(self, path, **kw):
        self.path = path
        self.readonly = kw.get('readonly', False)
        self.store = _STORES.setdefault(path, {})
        self.closed = False
        self._main = self.open_db(None)
    def open_db(self, key=None, dupsort=False, **kw):
        name = bytes(key) if key is not None else None
        if name not in self.store:
            self.store[name] = ([], {})
        return _DB(name)
    def begin(self, db=None, write=False, buffers=False, **kw):
        return Transaction(self, db if db is not None else self._main, write, buffers)
    def close(self): self.closed = True
    def sync(self, force=False): pass

def open(path, **kw):
    return Environment(path, **kw)

class Transaction:
    def __init__(self, env, db, write, buffers):
        self.env = env; self.db = db; self.write = write; self.buffers = buffers
    def __enter__(self):
        # a write transaction is atomic: snapshot, restore if the block raises (lmdb aborts the txn)
        self._snap = {n: (list(ks), dict(d)) for n, (ks, d) in self.env.store.items()} if self.write else None
        return self
    def __exit__(self, et, ev, tb):
        if et is not None and self._snap is not None:
            for n, (ks, d) in self._snap.items():
                cur = self.env.store[n]; cur[0][:] = ks; cur[1].clear(); cur[1].update(d)
            for n in list(self.env.store):
                if n not in self._snap: self.env.store[n][0][:] = []; self.env.store[n][1].clear()
        return False
    def _kv(self, db=None):
        return self.env.store[(db or self.db).name]
    def _out(self, b):
        return memoryview(b) if self.buffers else b
    def get(self, key, default=None, db=None):
        key = bytes(key); _chk(key)
        keys, d = self._kv(db)
        return self._out(d[key]) if key in d else default
    def put(self, key, value, dupdata=True, overwrite=True, append=False, db=None):
        key = bytes(key); value = bytes(value); _chk(key)
        keys, d = self._kv(db)
        if key in d:
            if not overwrite: return False
            d[key] = value; return True
        bisect.insort(keys, key); d[key] = value; return True
    def delete(self, key, value=b'', db=None):
        key = bytes(key); _chk(key)
        keys, d = self._kv(db)
        if key not in d: return False
        del d[key]; keys.pop(bisect.bisect_left(keys, key)); return True
    def cursor(self, db=None):
        return Cursor(self, db or self.db)

class Cursor:
    def __init__(self, txn, db):
        self.txn = txn; self.db = db; self.pos = None  # index into keys, None = unpositioned, len = past end
        self.indet = False   # position after put/replace is outside the validated contract
        self.fresh = True
    def _det(self):
        if self.indet: raise AssertionError("FakeLMDB: cursor position read after put/replace is outside the validated contract")
    def _need_on(self, what):
        # envelope: relative moves and iteration only from a valid position (or iteration from a fresh cursor)
        self._det()
        if not self._valid() and not (what == 'iternext' and self.fresh):
            raise AssertionError("FakeLMDB: %s from an unpositioned/EOF cursor is outside the validated contract" % what)
    def _kv(self): return self.txn.env.store[self.db.name]
    def _valid(self):
        keys, d = self._kv(); return self.pos is not None and 0 <= self.pos < len(keys)
    def key(self):
        self._det(); keys, d = self._kv(); return self.txn._out(keys[self.pos]) if self._valid() else self.txn._out(b'')
    def value(self):
        self._det(); keys, d = self._kv(); return self.txn._out(d[keys[self.pos]]) if self._valid() else self.txn._out(b'')
    def item(self): return (self.key(), self.value())
    def first(self):
        self.indet = False; self.fresh = False; keys, d = self._kv(); self.pos = 0 if keys else None; return bool(keys)
    def last(self):
        self.indet = False; self.fresh = False; keys, d = self._kv(); self.pos = len(keys) - 1 if keys else None; return bool(keys)
    def next(self):
        self._need_on('next'); keys, d = self._kv()
        self.pos += 1
        if self.pos >= len(keys): self.pos = len(keys); return False
        return True
    def prev(self):
        self._need_on('prev'); keys, d = self._kv()
        if self.pos <= 0: self.pos = None; return False
        self.pos -= 1; return True
    def set_range(self, key):
        self.indet = False; self.fresh = False; key = bytes(key); keys, d = self._kv()
        if len(key) == 0: return self.first()
        i = bisect.bisect_left(keys, key)
        if i >= len(keys): self.pos = len(keys); return False
        self.pos = i; return True
    def set_key(self, key):
        self.indet = False; self.fresh = False; key = bytes(key); _chk(key); keys, d = self._kv()
        if key in d: self.pos = bisect.bisect_left(keys, key); return True
        self.pos = None; return False
    def get(self, key, default=None):
        return self.value() if self.set_key(key) else default
    def iternext(self, keys=True, values=True):
        self._need_on('iternext')
        if not self._valid():
            if not self.first(): return
        self.fresh = False
        while self._valid():
            if keys and values: yield self.item()
            elif keys: yield self.key()
            else: yield self.value()
            ks, d = self._kv()
            self.pos += 1
            if self.pos >= len(ks): self.pos = len(ks)
    def __iter__(self): return self.iternext()
    def delete(self, dupdata=False):
        self._need_on('delete'); ks, d = self._kv()
        k = ks.pop(self.pos); del d[k]
        if self.pos >= len(ks): self.pos = len(ks)
        return True
    def put(self, key, val, dupdata=True, overwrite=True, append=False):
        key = bytes(key); val = bytes(val); _chk(key)
        ks, d = self._kv()
        if key in d:
            self.pos = bisect.bisect_left(ks, key); self.indet = True
            if not overwrite: return False
            d[key] = val; return True
        bisect.insort(ks, key); d[key] = val; self.pos = bisect.bisect_left(ks, key); self.indet = True; return True
    def replace(self, key, val):
        key = bytes(key); val = bytes(val); _chk(key)
        ks, d = self._kv()
        old = d.get(key)
        self.put(key, val)
        return self.txn._out(old) if old is not None else None
