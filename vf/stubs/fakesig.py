"""FakeSig / FakeUUID: what hio.core.memo.memoing sees as `pysodium` and `uuid`.

Ideal signature scheme (EUF-CMA idealised): verify(sig, msg, vk) succeeds iff sig is the signature produced for
exactly (msg, key of vk); keys are derived injectively from seeds.  uuid1() returns distinct deterministic values."""
import hashlib


class FakeSodium:
    table = {}

    @staticmethod
    def crypto_sign_seed_keypair(seed):
        seed = bytes(seed)
        vk = hashlib.sha256(b'vk' + seed).digest()
        sk = seed + vk
        FakeSodium.table[vk] = seed
        return vk, sk

    issued = {}      # seed -> list of (message, signature) pairs this key has signed

    @staticmethod
    def crypto_sign_detached(msg, sk):
        seed, msg = bytes(sk[:32]), bytes(msg)
        sig = hashlib.sha512(b'sig' + seed + msg).digest()
        pairs = FakeSodium.issued.setdefault(seed, [])
        if (msg, sig) not in pairs:
            pairs.append((msg, sig))
        return sig

    @staticmethod
    def crypto_sign_verify_detached(sig, msg, vk):
        """succeeds iff this exact (message, signature) pair was issued under the key of vk.  Decided by comparing with the
        issued pairs, so a symbolic message / signature is compared in the solver instead of being hashed (realised)."""
        seed = FakeSodium.table.get(bytes(vk))
        for (m, s) in FakeSodium.issued.get(seed, ()) if seed is not None else ():
            if len(msg) == len(m) and msg == m and sig == s:
                return
        raise ValueError('signature does not verify')


class FakeUUID:
    n = 0

    class U:
        def __init__(self, n):
            self.bytes = n.to_bytes(16, 'big')

    @staticmethod
    def uuid1():
        FakeUUID.n += 1
        return FakeUUID.U(FakeUUID.n)


class NullLogger:
    def __getattr__(self, k):
        return lambda *a, **kw: None


class Patch:
    def __init__(self, memoing):
        self.m = memoing

    def __enter__(self):
        m = self.m
        self.saved = (m.pysodium, m.logger, m.uuid)
        m.pysodium, m.logger, m.uuid = FakeSodium, NullLogger(), FakeUUID
        FakeUUID.n = 0
        return self

    def __exit__(self, *a):
        m = self.m
        m.pysodium, m.logger, m.uuid = self.saved
        return False
