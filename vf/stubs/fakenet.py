"""FakeNet: what hio.core.tcp.clienting / serving see as the `socket` module, plus a fake TLS context.

Contract (each item is part of the claim of the properties that use it):
  * a socket is an object with send/recv/accept/connect_ex/shutdown/close/getpeername/getsockname/setblocking/
    setsockopt/getsockopt/bind/listen; every socket CREATED (socket()) or ACCEPTED (accept()) by the endpoint
    is registered as open until close() (descriptor leak detection, C11); a connection still sitting in the
    listen backlog has not been opened by the endpoint;
  * send(data) hands the decision to a policy callback: it returns the count accepted (0..len) or raises;
    accepted bytes are appended to .wire (what the peer has received), nothing else is;
  * recv(n) returns the next scripted chunk cut to n bytes (remainder stays queued), b'' once the peer closed,
    raises EAGAIN when nothing is queued, or whatever the policy callback raises;
  * FakeCtx.wrap_socket returns a FakeTLSSock over the same descriptor whose do_handshake follows a script of
    'want-read' | 'want-write' | 'ok' | 'eof' | errno ints, and whose would-block errors are SSLWantRead/WriteError.
"""
import errno
import ssl


class FakeSock:
    def __init__(self, net, local=('127.0.0.1', 6101), peer=None, kind='conn'):
        self.net = net
        self.local = local
        self.peer = peer
        self.kind = kind
        self.closed = False
        self.shut = None
        self.inq = []            # scripted recv results: bytes | ('err', exc) | 'eof'
        self.wire = bytearray()  # bytes the peer has received from us
        self.backlog = []        # listen socket: connections not yet accepted
        self.on_send = None      # policy(sock, data) -> int | raises
        self.on_recv = None      # policy(sock, n) -> None (use inq) | bytes | raises
        self.connect_results = []
        self.sends = 0
        self.recvs = 0
        self.tls = False
        self.dead = False        # a connection-level fault was reported on this descriptor (kernel dropped the connection)
        net.created.append(self)

    # ---- plumbing hio calls at set-up
    def setsockopt(self, *a):
        pass

    def getsockopt(self, *a):
        return 1 << 20

    def setblocking(self, f):
        pass

    def bind(self, ha):
        self.kind = 'listen'        # a descriptor the endpoint means to listen on, whether or not bind succeeds
        plan = getattr(self.net, 'bind_plan', None)
        if plan:
            r = plan.pop(0)
            if r == 'bind':
                raise OSError(errno.EADDRINUSE, 'Address already in use')
            if r == 'listen':
                self._listen_fails = True
        self.local = ha

    def listen(self, n):
        if getattr(self, '_listen_fails', False):
            raise OSError(errno.EADDRINUSE, 'Address already in use')
        self.kind = 'listen'

    def getsockname(self):
        return self.local

    def getpeername(self):
        if self.peer is None or self.dead:
            raise OSError(errno.ENOTCONN, 'not connected')      # as a real socket after a reset / before connect
        return self.peer

    def fileno(self):
        return -1 if self.closed else 100 + self.net.created.index(self)

    def shutdown(self, how):
        if self.closed:
            raise OSError(errno.EBADF, 'bad descriptor')
        if self.dead or self.peer is None:
            raise OSError(errno.ENOTCONN, 'not connected')     # as the kernel answers once the connection is gone
        self.shut = how

    def close(self):
        self.closed = True
        self.net.opened.discard(self)

    # ---- connection establishment
    def connect_ex(self, ha):
        r = self.connect_results.pop(0) if self.connect_results else 0
        if r in (0, errno.EISCONN):
            self.peer = ha
        return r

    def accept(self):
        if not self.backlog:
            raise BlockingIOError(errno.EAGAIN, 'again')
        cs = self.backlog.pop(0)
        self.net.opened.add(cs)          # from now on it belongs to the endpoint
        return cs, cs.peer

    # ---- data
    def send(self, data):
        self.sends += 1
        if self.closed:
            raise OSError(errno.EBADF, 'bad descriptor')
        if self.on_send is not None:
            c = self.on_send(self, data)
        else:
            c = len(data)
        self.wire.extend(bytes(data[:c]))
        return c

    def recv(self, n):
        self.recvs += 1
        if self.closed:
            raise OSError(errno.EBADF, 'bad descriptor')
        if self.on_recv is not None:
            r = self.on_recv(self, n)
            if r is not None:
                return r
        if not self.inq:
            raise self.would_block()
        x = self.inq[0]
        if x == 'eof':
            return b''
        if isinstance(x, tuple):
            self.inq.pop(0)
            raise x[1]
        if len(x) > n:
            self.inq[0] = x[n:]
            return x[:n]
        self.inq.pop(0)
        return x

    def would_block(self):
        return BlockingIOError(errno.EAGAIN, 'again')


class FakeTLSSock(FakeSock):
    """the object SSLContext.wrap_socket returns: same descriptor, TLS error vocabulary"""
    def __init__(self, inner, script=None):
        self.__dict__.update(inner.__dict__)
        self.inner = inner
        self.tls = True
        self.hs_script = list(script if script is not None else ['ok'])
        self.handshakes = 0
        net = inner.net
        # the wrapped socket IS the descriptor from now on
        i = net.created.index(inner)
        net.created[i] = self
        if inner in net.opened:
            net.opened.discard(inner)
            net.opened.add(self)

    def do_handshake(self):
        self.handshakes += 1
        step = self.hs_script.pop(0) if self.hs_script else 'ok'
        if step == 'ok':
            return
        if step == 'want-read':
            raise ssl.SSLWantReadError(ssl.SSL_ERROR_WANT_READ, 'want read')
        if step == 'want-write':
            raise ssl.SSLWantWriteError(ssl.SSL_ERROR_WANT_WRITE, 'want write')
        if step == 'eof':
            raise ssl.SSLEOFError(ssl.SSL_ERROR_EOF, 'EOF occurred in violation of protocol')
        if step == 'sslerror':
            raise ssl.SSLError(ssl.SSL_ERROR_SSL, 'bad handshake')
        if isinstance(step, int):
            raise OSError(step, 'os error during handshake')
        if isinstance(step, BaseException):
            raise step
        raise ValueError(step)

    def would_block(self):
        return ssl.SSLWantReadError(ssl.SSL_ERROR_WANT_READ, 'want read')


class FakeCtx:
    """stands in for ssl.SSLContext where hio accepts a ready context"""
    verify_mode = ssl.CERT_NONE
    check_hostname = False

    def __init__(self, script=None, scripts=None):
        self.script = script
        self.scripts = list(scripts or [])
        self.wrapped = []

    def wrap_socket(self, sock, server_side=False, do_handshake_on_connect=False, server_hostname=None):
        sc = self.scripts.pop(0) if self.scripts else self.script
        t = FakeTLSSock(sock, script=sc)
        self.wrapped.append(t)
        return t

    def load_verify_locations(self, **kw):
        pass

    def load_default_certs(self, **kw):
        pass

    def load_cert_chain(self, **kw):
        pass


class FakeNet:
    """module-like object bound to `socket` inside the hio tcp modules"""
    AF_INET = 2
    AF_INET6 = 10
    SOCK_STREAM = 1
    SOL_SOCKET = 1
    SO_REUSEADDR = 2
    SO_SNDBUF = 7
    SO_RCVBUF = 8
    SO_REUSEPORT = 15
    SHUT_RD, SHUT_WR, SHUT_RDWR = 0, 1, 2
    IPPROTO_TCP = 6
    TCP_NODELAY = 1
    error = OSError
    timeout = TimeoutError
    gaierror = OSError

    def __init__(self):
        self.created = []     # every FakeSock ever made (incl. peers' ends queued in a backlog)
        self.opened = set()   # sockets currently open AND owned by the endpoint under test
        self.on_socket = None

    def socket(self, *a, **kw):
        s = FakeSock(self)
        self.opened.add(s)
        if self.on_socket:
            self.on_socket(s)
        return s

    def incoming(self, listen, peer, local=None):
        """a client connection arrives in the listen backlog; returns the server-side socket-to-be"""
        cs = FakeSock(self, local=local or listen.local, peer=peer)
        listen.backlog.append(cs)
        return cs

    def gethostbyname(self, h):
        return h

    SOCK_DGRAM = 2
    IPPROTO_IP = 0

    def getaddrinfo(self, host, port, *a, **kw):
        return [(self.AF_INET, self.SOCK_STREAM, 6, '', (host if host else '0.0.0.0', port))]

    def getfqdn(self, h=''):
        return h or 'localhost'

    def gethostname(self):
        return 'localhost'

    def inet_pton(self, af, host):
        import socket as real
        return real.inet_pton(af, host)

    def inet_aton(self, host):
        import socket as real
        return real.inet_aton(host)


class NullLogger:
    """logging stub (formatting a message with a symbolic value would realise it; messages are not the subject)"""
    def __getattr__(self, name):
        return lambda *a, **k: None


class Patch:
    """context manager: bind FakeNet as `socket` (and a null logger) in the given hio modules"""
    def __init__(self, net, *mods):
        self.net, self.mods, self.saved = net, mods, []

    def __enter__(self):
        for m in self.mods:
            self.saved.append((m, m.socket, getattr(m, 'logger', None)))
            m.socket = self.net
            if hasattr(m, 'logger'):
                m.logger = NullLogger()
        return self.net

    def __exit__(self, *a):
        for m, s, lg in self.saved:
            m.socket = s
            if lg is not None:
                m.logger = lg
        return False
