"""SymTable: a dict (int -> 1-char str, or 1-char str -> int) whose lookup with a SYMBOLIC key does not fork per entry.

A Python dict lookup with a symbolic key is decided by comparing the key with each stored key in turn - one
branch per entry (64-way for hio's B64ChrByIdx / B64IdxByChr, per character converted).  The table below answers
a symbolic key with a symbolic value given by the z3 if-then-else chain over the SAME entries (read from the real
dict at patch time), so the solver - not the path tree - carries the case split; the only fork left is "key in the
table or not" (KeyError, as the dict raises).  Concrete keys go to the real dict."""
import z3
from crosshair.core import NoTracing, ResumedTracing
from crosshair.statespace import context_statespace
from crosshair.libimpl.builtinslib import SymbolicInt, LazyIntSymbolicStr, AnySymbolicStr


class SymTable(dict):
    def __getitem__(self, key):
        with NoTracing():
            kind = 'int' if isinstance(key, SymbolicInt) else ('str' if isinstance(key, AnySymbolicStr) else None)
            if kind is None:
                return dict.__getitem__(self, key)
            if kind == 'str':
                with ResumedTracing():
                    if len(key) != 1:
                        raise KeyError(key)
                    cp = ord(key)
                if not isinstance(cp, SymbolicInt):
                    return dict.__getitem__(self, chr(cp))
                var = cp.var
                entries = sorted((ord(k), v) for k, v in dict.items(self) if isinstance(k, str) and len(k) == 1)
            else:
                var = key.var
                entries = sorted((k, ord(v)) for k, v in dict.items(self) if isinstance(k, int))
            space = context_statespace()
            inrange = z3.Or(*[var == k for k, _ in entries])
            if not space.smt_fork(inrange, probability_true=0.75):
                raise KeyError(key)
            e = z3.IntVal(entries[-1][1])
            for k, v in reversed(entries[:-1]):
                e = z3.If(var == k, z3.IntVal(v), e)
            return LazyIntSymbolicStr([SymbolicInt(e)]) if kind == 'int' else SymbolicInt(e)
