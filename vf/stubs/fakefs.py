"""FakeFS: what hio.base.filing sees as os / os.path / shutil / tempfile / ocfn.

An in-memory tree (sets of directory and file paths, POSIX semantics) with a log of every effect. Contract:
  * path algebra (join, split, splitext, isabs, normpath) is the real posixpath; abspath(p) = normpath(join('/cwd', p));
    expanduser maps a leading '~' to /HOME;
  * exists / isfile / isdir answer from the tree;
  * makedirs(p) creates p and its missing ancestors (FileExistsError if p exists, NotADirectoryError through a file,
    PermissionError under a root listed in .readonly);
  * remove(p) removes a file (IsADirectoryError on a directory, FileNotFoundError when absent);
  * rmtree(p) removes p and everything below (FileNotFoundError when absent, NotADirectoryError on a file);
  * mkdtemp(prefix, suffix, dir) creates and returns dir/prefix + 'X' + suffix (a fresh name each call);
  * ocfn(path, mode, perm) creates the file when absent (parent must exist) and returns a FakeFile;
  * access(p, m) is False for paths under a root listed in .inaccessible;
  * every effect is appended to .log as (kind, path)."""
import errno
import posixpath


class FakeFile:
    def __init__(self, fs, path):
        self.fs, self.path, self.closed = fs, path, False

    def flush(self):
        pass

    def fileno(self):
        return 3

    def close(self):
        self.closed = True


class FakeFS:
    def __init__(self):
        self.dirs = {'/', '/cwd', '/HOME'}
        self.files = set()
        self.log = []
        self.readonly = []
        self.inaccessible = []
        self.ntemp = 0
        self.path = _Path(self)
        self.F_OK, self.R_OK, self.W_OK = 0, 4, 2
        self.sep = '/'

    # ---- helpers
    def _norm(self, p):
        return posixpath.normpath(posixpath.join('/cwd', p))

    def mkdir_p(self, p):
        p = self._norm(p)
        while p != '/':
            self.dirs.add(p)
            p = posixpath.dirname(p)

    def under(self, p, roots):
        p = self._norm(p)
        return any(p == r or p.startswith(r.rstrip('/') + '/') for r in roots)

    def snapshot(self):
        return (set(self.dirs), set(self.files))

    # ---- os
    def makedirs(self, p, mode=0o777, exist_ok=False):
        q = self._norm(p)
        self.log.append(('makedirs', q))
        if self.under(q, self.readonly):
            raise PermissionError(errno.EACCES, 'permission denied', p)
        if q in self.dirs or q in self.files:
            if exist_ok and q in self.dirs:
                return
            raise FileExistsError(errno.EEXIST, 'exists', p)
        parts, cur = [], q
        while cur not in self.dirs:
            if cur in self.files:
                raise NotADirectoryError(errno.ENOTDIR, 'not a directory', cur)
            parts.append(cur)
            cur = posixpath.dirname(cur)
        for d in parts:
            self.dirs.add(d)

    def remove(self, p):
        q = self._norm(p)
        self.log.append(('remove', q))
        if q in self.dirs:
            raise IsADirectoryError(errno.EISDIR, 'is a directory', p)
        if q not in self.files:
            raise FileNotFoundError(errno.ENOENT, 'no such file', p)
        self.files.discard(q)

    def chmod(self, p, perm):
        q = self._norm(p)
        self.log.append(('chmod', q))
        if q not in self.dirs and q not in self.files:
            raise FileNotFoundError(errno.ENOENT, 'no such file', p)

    def access(self, p, m):
        q = self._norm(p)
        return (q in self.dirs or q in self.files) and not self.under(q, self.inaccessible)

    def fsync(self, fd):
        pass

    # ---- shutil
    def rmtree(self, p, ignore_errors=False):
        q = self._norm(p)
        self.log.append(('rmtree', q))
        if q in self.files:
            raise NotADirectoryError(errno.ENOTDIR, 'not a directory', p)
        if q not in self.dirs:
            raise FileNotFoundError(errno.ENOENT, 'no such directory', p)
        pre = q.rstrip('/') + '/'
        self.dirs = {d for d in self.dirs if d != q and not d.startswith(pre)} | {'/'}      # the root itself always exists
        self.files = {f for f in self.files if not f.startswith(pre)}

    # ---- tempfile
    def mkdtemp(self, suffix='', prefix='', dir=None):
        self.ntemp += 1
        q = self._norm(posixpath.join(dir or '/T', '%s%s%s' % (prefix, 'X' * self.ntemp, suffix)))
        self.log.append(('mkdtemp', q))
        self.mkdir_p(q)
        return q

    def gettempdir(self):
        return '/T'

    # ---- ocfn
    def ocfn(self, path, mode='r+', perm=0o600):
        q = self._norm(path)
        self.log.append(('open', q))
        if q in self.dirs:
            raise IsADirectoryError(errno.EISDIR, 'is a directory', path)
        if posixpath.dirname(q) not in self.dirs:
            raise FileNotFoundError(errno.ENOENT, 'no such directory', path)
        if self.under(q, self.readonly) and q not in self.files:
            raise PermissionError(errno.EACCES, 'permission denied', path)
        self.files.add(q)
        return FakeFile(self, q)


class _Path:
    def __init__(self, fs):
        self.fs = fs
        self.sep = '/'

    def __getattr__(self, n):
        return getattr(posixpath, n)

    def abspath(self, p):
        return self.fs._norm(p)

    def expanduser(self, p):
        return '/HOME' + p[1:] if p.startswith('~') else p

    def exists(self, p):
        q = self.fs._norm(p)
        return q in self.fs.dirs or q in self.fs.files

    def isfile(self, p):
        return self.fs._norm(p) in self.fs.files

    def isdir(self, p):
        return self.fs._norm(p) in self.fs.dirs


class Patch:
    """bind a FakeFS as os / shutil / tempfile / ocfn inside hio.base.filing"""
    def __init__(self, filing, fs):
        self.filing, self.fs = filing, fs

    def __enter__(self):
        f = self.filing
        self.saved = (f.os, f.shutil, f.tempfile, f.ocfn)
        f.os = f.shutil = f.tempfile = self.fs
        f.ocfn = self.fs.ocfn
        return self.fs

    def __exit__(self, *a):
        f = self.filing
        f.os, f.shutil, f.tempfile, f.ocfn = self.saved
        return False
