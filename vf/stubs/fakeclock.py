"""FakeClock: what hio.help.timing / hio.base.doing see as the `time` module.

true time tau only moves forward (by a symbolic d >= 0 at every read and x + o, o >= 0, at every sleep(x));
the clock READING is tau + off where off drops by a symbolic j >= 0 at the (driver/solver chosen) read positions
(backward steps).  Forward jumps are excluded (documented as undetectable)."""


class FakeClock:
    def __init__(self, sym, max_reads=40, step_at=(), d_hi=0.25, o_hi=1.0, j_hi=2.0, tau0=1000.0):
        self.sym = sym
        self.tau = tau0
        self.off = 0.0
        self.reads = 0
        self.sleeps = 0
        self.max_reads = max_reads
        self.step_at = tuple(step_at)
        self.d_hi, self.o_hi, self.j_hi = d_hi, o_hi, j_hi
        self.env = 0.0          # environment-injected delay since last mark()
        self.jsum = 0.0         # total backward steps so far
        self.log = []

    def time(self):
        i = self.reads
        self.reads += 1
        if i < self.max_reads:
            d = self.sym.real('d%d' % i, 0, self.d_hi)
            self.tau = self.tau + d
            self.env = self.env + d
        if i in self.step_at:
            j = self.sym.real('j%d' % i, 0, self.j_hi)
            self.off = self.off - j
            self.jsum = self.jsum + j
        return self.tau + self.off

    def sleep(self, x):
        i = self.sleeps
        self.sleeps += 1
        o = self.sym.real('o%d' % i, 0, self.o_hi) if i < self.max_reads else 0.0
        self.tau = self.tau + x + o
        self.env = self.env + o

    def work(self, amount):
        """the code under test spends `amount` of true time (no clock read)"""
        self.tau = self.tau + amount

    def mark(self):
        e = self.env
        self.env = 0.0
        return e
