"""fresh-process replay of a counterexample file: NO CrossHair, concrete values, real hio code.
exit 0 = the violation reproduces (same signature), 4 = it does not, other = could not run"""
import json
import os
import sys


def main():
    path = sys.argv[1]
    cex = json.load(open(path))
    assert 'crosshair' not in sys.modules
    from vf.engine.base import dec, run_concrete, AssumeFailed
    from vf.engine import par
    par._assert_tree()
    mod = par.load(cex['property_id'])
    inputs = {k: dec(v) for k, v in (cex.get('inputs') or {}).items()}
    part = cex.get('part') or {}
    if hasattr(mod, 'replay'):
        res = mod.replay(cex, inputs, part)
    else:
        try:
            res, tags, notes = run_concrete(mod.harness, part, inputs)
        except AssumeFailed as ex:
            print("NOT-REPRODUCED: recorded inputs rejected by the harness: %s" % (ex,))
            return 4
    assert 'crosshair' not in sys.modules, "replay must not involve the symbolic engine"
    if res is None:
        print("NOT-REPRODUCED: property holds on the recorded inputs %s" % (json.dumps(cex.get('inputs'))[:400],))
        return 4
    if res.classify is not None:
        res.sig = str(res.classify(part, inputs))
    if res.sig != cex.get('sig'):
        print("NOT-REPRODUCED: concrete run fails with a different signature %r (symbolic run: %r): %s" % (
            res.sig, cex.get('sig'), res.why[:400]))
        return 4
    print("REPRODUCED signature=%s :: %s" % (res.sig, res.why[:1500]))
    if hasattr(mod, 'replay_real'):
        print("real-environment replay: %s" % (mod.replay_real(cex, inputs, part),))
    return 0


if __name__ == '__main__':
    sys.exit(main())
