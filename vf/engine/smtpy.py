"""Engine E2 `smtpy`: a small symbolic interpreter over the `ast` of REAL function source (inspect.getsource at run
time) producing z3 terms.  Python int -> bit-vector of width W with no-overflow proof obligations on every
operation that could exceed the width (so the width can never hide a Python big-int effect); int/int true
division -> IEEE double (z3 FloatingPoint, RNE) and int(float) -> round-toward-zero conversion; str/bytes/deque
-> sequences of concrete length whose elements are code points / bytes (symbolic or concrete); module level
dict tables -> ITE chains (a missing key is a KeyError path).  Loops are unrolled with an unwinding assertion.
Symbolic conditions fork (decision trail + re-execution), infeasible sides are pruned by the solver.

Unsupported syntax raises Untranslatable: the obligation is then reported as not encodable (never as holding).
"""
import ast
import inspect
import math
import textwrap
import z3

W = 96


class Raised(Exception):
    """the interpreted code raised an exception (name only)"""
    def __init__(self, name):
        self.name = name

    def __repr__(self):
        return 'Raised(%s)' % self.name


class Untranslatable(Exception):
    pass


class SSeq:
    """sequence with concrete length; kind in {'str','bytes','deque','list'}; elems are ints or z3 BV(W)"""
    def __init__(self, kind, elems):
        self.kind = kind
        self.elems = list(elems)

    def __len__(self):
        return len(self.elems)

    def __iter__(self):
        return iter(self.elems)


class SFloat:
    """an IEEE double: either a z3 FP term, or (fast path) an exactly representable dyadic M / 2**k with M a
    bit-vector already rounded to 53 significant bits (what float(int) / 2**k is, absent under/overflow)"""
    def __init__(self, term=None, dyadic=None):
        self._term = term
        self.dyadic = dyadic

    @property
    def term(self):
        if self._term is None:
            M, k = self.dyadic
            self._term = z3.fpDiv(z3.RNE(), z3.fpToFPUnsigned(z3.RNE(), M, z3.Float64()), z3.FPVal(float(2 ** k), z3.Float64()))
        return self._term


def round53(x):
    """float(int) for a non-negative int given as BV(W): round to nearest even at 53 significant bits (pure BV)"""
    r = x
    for sft in range(1, W - 53 + 1):
        # bit length == 53 + sft
        top = z3.LShR(x, 53 + sft - 1)
        q = z3.LShR(x, sft)
        rem = x & ((1 << sft) - 1)
        half = 1 << (sft - 1)
        up = z3.Or(z3.UGT(rem, half), z3.And(rem == half, (q & 1) == 1))
        rounded = z3.If(up, q + 1, q) << sft
        r = z3.If(top == 1, rounded, r)
    return r


def bv(x):
    if isinstance(x, bool):
        return z3.BitVecVal(int(x), W)
    if isinstance(x, int):
        if x < 0 or x >= (1 << W):
            raise Untranslatable('concrete int outside the model width: %r' % (x,))
        return z3.BitVecVal(x, W)
    return x


def is_sym(x):
    return isinstance(x, z3.ExprRef)


class _Return(Exception):
    def __init__(self, v):
        self.value = v


class _Break(Exception):
    pass


class _Continue(Exception):
    pass


class Path:
    def __init__(self, trail):
        self.trail = list(trail)
        self.i = 0
        self.pc = []
        self.obligations = []


class Table:
    """module-level dict read from the real module, as an ITE chain; missing key => KeyError path"""
    def __init__(self, d):
        self.items = [((ord(k) if isinstance(k, str) else k), (ord(v) if isinstance(v, str) else v)) for k, v in d.items()]

    def lookup(self, interp, key):
        if not is_sym(key):
            for k, v in self.items:
                if k == key:
                    return v
            raise Raised('KeyError')
        inside = z3.Or(*[key == k for k, _ in self.items])
        if not interp.decide(inside):
            raise Raised('KeyError')
        r = z3.BitVecVal(0, W)
        for k, v in self.items:
            r = z3.If(key == k, z3.BitVecVal(v, W), r)
        return r


class Interp:
    def __init__(self, module, tables=None, unwind=12, known_funcs=()):
        self.module = module
        self.tables = dict(tables or {})
        self.funcs = {}
        self.unwind = unwind
        self.known = set(known_funcs)
        self.solver_calls = 0
        self.solver_s = 0.0
        self.encoded = set()

    def func_ast(self, name):
        if name not in self.funcs:
            src = textwrap.dedent(inspect.getsource(getattr(self.module, name)))
            self.funcs[name] = ast.parse(src).body[0]
            self.encoded.add(name)
        return self.funcs[name]

    # ---- exploration -------------------------------------------------------------------------------
    def run_all(self, fn, assumptions=()):
        """fn(interp) -> value; yields (path_condition, result|Raised, obligations) for every feasible path"""
        stack = [[]]
        while stack:
            trail = stack.pop()
            p = Path(trail)
            p.pc = list(assumptions)
            self.path = p
            try:
                res = fn(self)
            except Raised as r:
                res = r
            for k in range(len(trail), len(p.trail)):
                stack.append(p.trail[:k] + [not p.trail[k]])
            if self.feasible(p.pc):
                yield p.pc, res, p.obligations

    def feasible(self, pc):
        import time
        s = z3.Solver()
        s.set('timeout', 15000)
        s.add(*pc)
        t = time.perf_counter()
        r = s.check()
        self.solver_s += time.perf_counter() - t
        self.solver_calls += 1
        if r == z3.unknown:
            raise Untranslatable('solver unknown on a feasibility query')
        return r == z3.sat

    def decide(self, cond):
        p = self.path
        if p.i < len(p.trail):
            d = p.trail[p.i]
        else:
            d = self.feasible(p.pc + [cond])
            p.trail.append(d)
        p.i += 1
        p.pc.append(cond if d else z3.Not(cond))
        return d

    def truth(self, v):
        if isinstance(v, SSeq):
            return len(v) > 0
        if is_sym(v):
            if z3.is_bool(v):
                return self.decide(v)
            return self.decide(v != 0)
        if isinstance(v, SFloat):
            raise Untranslatable('truth of float')
        return bool(v)

    # ---- evaluation --------------------------------------------------------------------------------
    def call(self, fname, args, kwargs=None):
        fn = self.func_ast(fname)
        env = {}
        params = [a.arg for a in fn.args.args]
        defaults = fn.args.defaults
        kwargs = dict(kwargs or {})
        for i, pn in enumerate(params):
            if i < len(args):
                env[pn] = args[i]
            elif pn in kwargs:
                env[pn] = kwargs.pop(pn)
            else:
                j = i - (len(params) - len(defaults))
                if j < 0:
                    raise Raised('TypeError')
                env[pn] = ast.literal_eval(defaults[j])
        try:
            self.block(fn.body, env)
        except _Return as r:
            return r.value
        return None

    def block(self, stmts, env):
        for s in stmts:
            self.stmt(s, env)

    def stmt(self, s, env):
        if isinstance(s, ast.Expr):
            if isinstance(s.value, ast.Constant):
                return
            self.expr(s.value, env)
            return
        if isinstance(s, ast.Assign):
            v = self.expr(s.value, env)
            for t in s.targets:
                self.assign(t, v, env)
            return
        if isinstance(s, ast.AugAssign):
            cur = self.expr(s.target, env)
            v = self.expr(s.value, env)
            self.assign(s.target, self.binop(s.op, cur, v), env)
            return
        if isinstance(s, ast.Return):
            raise _Return(self.expr(s.value, env) if s.value is not None else None)
        if isinstance(s, ast.Raise):
            if s.exc is None:
                raise Raised('reraise')
            raise Raised(s.exc.func.id if isinstance(s.exc, ast.Call) and isinstance(s.exc.func, ast.Name) else getattr(s.exc, 'id', 'Exception'))
        if isinstance(s, ast.If):
            if self.truth(self.expr(s.test, env)):
                self.block(s.body, env)
            else:
                self.block(s.orelse, env)
            return
        if isinstance(s, ast.While):
            n = 0
            while self.truth(self.expr(s.test, env)):
                n += 1
                if n > self.unwind:
                    raise Raised('UNWIND')      # unwinding assertion: reported, never silently truncated
                try:
                    self.block(s.body, env)
                except _Break:
                    break
                except _Continue:
                    continue
            return
        if isinstance(s, ast.For):
            it = self.expr(s.iter, env)
            if is_sym(it):
                raise Untranslatable('loop over a symbolic iterable')
            for item in it:
                self.assign(s.target, item, env)
                try:
                    self.block(s.body, env)
                except _Break:
                    break
                except _Continue:
                    continue
            return
        if isinstance(s, ast.Break):
            raise _Break()
        if isinstance(s, ast.Continue):
            raise _Continue()
        if isinstance(s, ast.Pass):
            return
        if isinstance(s, ast.Assert):
            if not self.truth(self.expr(s.test, env)):
                raise Raised('AssertionError')
            return
        if isinstance(s, ast.Try):
            try:
                self.block(s.body, env)
            except Raised as r:
                for h in s.handlers:
                    names = []
                    if h.type is None:
                        names = None
                    elif isinstance(h.type, ast.Tuple):
                        names = [x.id for x in h.type.elts if isinstance(x, ast.Name)]
                    elif isinstance(h.type, ast.Name):
                        names = [h.type.id]
                    if names is None or r.name in names or 'Exception' in names:
                        self.block(h.body, env)
                        break
                else:
                    raise
            else:
                self.block(s.orelse, env)
            finally:
                if s.finalbody:
                    self.block(s.finalbody, env)
            return
        raise Untranslatable('statement ' + type(s).__name__)

    def assign(self, t, v, env):
        if isinstance(t, ast.Name):
            env[t.id] = v
        elif isinstance(t, (ast.Tuple, ast.List)):
            vs = list(v)
            for tt, vv in zip(t.elts, vs):
                self.assign(tt, vv, env)
        elif isinstance(t, ast.Subscript):
            base = self.expr(t.value, env)
            idx = self.expr(t.slice, env)
            if isinstance(base, SSeq) and isinstance(idx, int):
                base.elems[idx] = v
            else:
                raise Untranslatable('subscript assignment')
        else:
            raise Untranslatable('assignment target ' + type(t).__name__)

    def binop(self, op, a, b):
        t = type(op)
        if isinstance(a, SSeq) or isinstance(b, SSeq):
            if t is ast.Add and isinstance(a, SSeq) and isinstance(b, SSeq):
                return SSeq(a.kind, a.elems + b.elems)
            if t is ast.Mult and isinstance(a, SSeq) and isinstance(b, int):
                return SSeq(a.kind, a.elems * b)
            raise Untranslatable('sequence operator ' + t.__name__)
        if isinstance(a, SFloat) or isinstance(b, SFloat):
            fa = a.term if isinstance(a, SFloat) else self.to_fp(a)
            fb = b.term if isinstance(b, SFloat) else self.to_fp(b)
            rm = z3.RNE()
            if t is ast.Div:
                return SFloat(z3.fpDiv(rm, fa, fb))
            if t is ast.Mult:
                return SFloat(z3.fpMul(rm, fa, fb))
            if t is ast.Add:
                return SFloat(z3.fpAdd(rm, fa, fb))
            if t is ast.Sub:
                return SFloat(z3.fpSub(rm, fa, fb))
            raise Untranslatable('float operator ' + t.__name__)
        if not is_sym(a) and not is_sym(b):
            try:
                return {ast.Add: lambda: a + b, ast.Sub: lambda: a - b, ast.Mult: lambda: a * b, ast.Mod: lambda: a % b,
                        ast.FloorDiv: lambda: a // b, ast.LShift: lambda: a << b, ast.RShift: lambda: a >> b,
                        ast.BitOr: lambda: a | b, ast.Div: lambda: a / b, ast.BitAnd: lambda: a & b,
                        ast.BitXor: lambda: a ^ b, ast.Pow: lambda: a ** b}[t]()
            except ZeroDivisionError:
                raise Raised('ZeroDivisionError')
        if t is ast.Div:
            if is_sym(a) and isinstance(b, int) and not isinstance(b, bool) and b > 0 and (b & (b - 1)) == 0:
                return SFloat(dyadic=(round53(a), b.bit_length() - 1))      # int / 2**k: exact after the int->float rounding
            return SFloat(z3.fpDiv(z3.RNE(), self.to_fp(a), self.to_fp(b)))
        if t is ast.Pow:
            if is_sym(b) or not isinstance(b, int) or b < 0:
                raise Untranslatable('symbolic exponent')
            r = 1
            for _ in range(b):
                r = self.binop(ast.Mult(), r, a)
            return r
        A, B = bv(a), bv(b)
        ob = self.path.obligations
        if t is ast.Add:
            ob.append(('add fits width', z3.BVAddNoOverflow(A, B, False)))
            return A + B
        if t is ast.Sub:
            # python ints may go negative: the model is unsigned, so a negative result is an obligation failure
            ob.append(('sub non-negative', z3.UGE(A, B)))
            return A - B
        if t is ast.Mod:
            if self.decide(B == 0):
                raise Raised('ZeroDivisionError')
            return z3.URem(A, B)
        if t is ast.FloorDiv:
            if self.decide(B == 0):
                raise Raised('ZeroDivisionError')
            return z3.UDiv(A, B)
        if t is ast.BitOr:
            return A | B
        if t is ast.BitAnd:
            return A & B
        if t is ast.BitXor:
            return A ^ B
        if t is ast.LShift:
            r = A << B
            ob.append(('shift keeps all bits', z3.And(z3.ULT(B, W), z3.LShR(r, B) == A)))
            return r
        if t is ast.RShift:
            return z3.If(z3.ULT(B, W), z3.LShR(A, B), z3.BitVecVal(0, W))
        if t is ast.Mult:
            ob.append(('mul fits width', z3.BVMulNoOverflow(A, B, False)))
            return A * B
        raise Untranslatable('operator ' + t.__name__)

    def to_fp(self, x):
        """python int -> float conversion (RNE), as float(int) does"""
        if isinstance(x, SFloat):
            return x.term
        if is_sym(x):
            return z3.fpToFPUnsigned(z3.RNE(), x, z3.Float64())
        if isinstance(x, bool):
            x = int(x)
        if isinstance(x, (int, float)):
            return z3.FPVal(float(x), z3.Float64())
        raise Untranslatable('to_fp of %r' % (type(x),))

    def compare(self, op, a, b):
        t = type(op)
        if isinstance(a, SSeq) and isinstance(b, SSeq):
            if t in (ast.Eq, ast.NotEq):
                if len(a) != len(b):
                    return t is ast.NotEq
                eq = z3.And(*[bv(x) == bv(y) for x, y in zip(a.elems, b.elems)]) if a.elems else True
                if eq is True:
                    return t is ast.Eq
                return eq if t is ast.Eq else z3.Not(eq)
            raise Untranslatable('sequence comparison')
        if t in (ast.In, ast.NotIn):
            if isinstance(b, Table):
                r = z3.Or(*[bv(a) == k for k, _ in b.items]) if is_sym(a) else any(a == k for k, _ in b.items)
            elif isinstance(b, SSeq):
                r = z3.Or(*[bv(a) == bv(x) for x in b.elems]) if (is_sym(a) or any(is_sym(x) for x in b.elems)) else (a in b.elems)
            elif isinstance(b, (tuple, list, str, bytes)):
                items = [ord(x) if isinstance(x, str) else x for x in b]
                r = z3.Or(*[bv(a) == x for x in items]) if is_sym(a) else (a in items)
            else:
                raise Untranslatable('in')
            if t is ast.NotIn:
                return z3.Not(r) if is_sym(r) else (not r)
            return r
        if t in (ast.Is, ast.IsNot):
            r = (a is b) if not (is_sym(a) or is_sym(b)) else None
            if r is None:
                r = (b is not None and a is not None) and None
                if b is None or a is None:
                    r = False
                else:
                    raise Untranslatable('is')
            return r if t is ast.Is else (not r)
        if is_sym(a) or is_sym(b):
            A, B = bv(a), bv(b)
            return {ast.Gt: z3.UGT(A, B), ast.Lt: z3.ULT(A, B), ast.Eq: A == B, ast.NotEq: A != B,
                    ast.GtE: z3.UGE(A, B), ast.LtE: z3.ULE(A, B)}[t]
        return {ast.Gt: lambda: a > b, ast.Lt: lambda: a < b, ast.Eq: lambda: a == b, ast.NotEq: lambda: a != b,
                ast.GtE: lambda: a >= b, ast.LtE: lambda: a <= b}[t]()

    def index(self, base, idx):
        if isinstance(base, Table):
            return base.lookup(self, idx)
        if isinstance(base, SSeq):
            if is_sym(idx):
                raise Untranslatable('symbolic index into a sequence')
            try:
                return base.elems[idx]
            except IndexError:
                raise Raised('IndexError')
        if isinstance(base, (tuple, list, str, bytes)) and not is_sym(idx):
            try:
                v = base[idx]
            except IndexError:
                raise Raised('IndexError')
            return ord(v) if isinstance(v, str) else v
        raise Untranslatable('subscript of %s' % type(base).__name__)

    def expr(self, e, env):
        if isinstance(e, ast.Constant):
            v = e.value
            if isinstance(v, str):
                return SSeq('str', [ord(c) for c in v])
            if isinstance(v, bytes):
                return SSeq('bytes', list(v))
            return v
        if isinstance(e, ast.Name):
            if e.id in env:
                return env[e.id]
            if e.id in self.tables:
                return self.tables[e.id]
            if e.id in ('True', 'False', 'None'):
                return {'True': True, 'False': False, 'None': None}[e.id]
            raise Untranslatable('name ' + e.id)
        if isinstance(e, ast.BinOp):
            return self.binop(e.op, self.expr(e.left, env), self.expr(e.right, env))
        if isinstance(e, ast.UnaryOp):
            v = self.expr(e.operand, env)
            if isinstance(e.op, ast.Not):
                return not self.truth(v)
            if isinstance(e.op, ast.USub) and not is_sym(v):
                return -v
            if isinstance(e.op, ast.Invert) and not is_sym(v):
                return ~v
            raise Untranslatable('unary ' + type(e.op).__name__)
        if isinstance(e, ast.BoolOp):
            if isinstance(e.op, ast.And):
                v = True
                for x in e.values:
                    v = self.expr(x, env)
                    if not self.truth(v):
                        return v
                return v
            v = False
            for x in e.values:
                v = self.expr(x, env)
                if self.truth(v):
                    return v
            return v
        if isinstance(e, ast.IfExp):
            return self.expr(e.body, env) if self.truth(self.expr(e.test, env)) else self.expr(e.orelse, env)
        if isinstance(e, ast.Compare):
            left = self.expr(e.left, env)
            res = True
            for op, c in zip(e.ops, e.comparators):
                right = self.expr(c, env)
                r = self.compare(op, left, right)
                if len(e.ops) == 1:
                    return r
                if not self.truth(r):
                    return False
                left = right
            return res
        if isinstance(e, ast.Tuple):
            return tuple(self.expr(x, env) for x in e.elts)
        if isinstance(e, ast.List):
            return SSeq('list', [self.expr(x, env) for x in e.elts])
        if isinstance(e, ast.Subscript):
            base = self.expr(e.value, env)
            if isinstance(e.slice, ast.Slice):
                if not isinstance(base, SSeq):
                    raise Untranslatable('slice of %s' % type(base).__name__)
                lo = self.expr(e.slice.lower, env) if e.slice.lower else None
                hi = self.expr(e.slice.upper, env) if e.slice.upper else None
                st = self.expr(e.slice.step, env) if e.slice.step else None
                if any(is_sym(x) for x in (lo, hi, st)):
                    raise Untranslatable('symbolic slice bound')
                return SSeq(base.kind, base.elems[lo:hi:st])
            return self.index(base, self.expr(e.slice, env))
        if isinstance(e, ast.Call):
            return self.callexpr(e, env)
        if isinstance(e, ast.JoinedStr):
            return SSeq('str', [])       # only used in error messages
        if isinstance(e, ast.Attribute):
            raise Untranslatable('attribute ' + e.attr)
        if isinstance(e, ast.ListComp) and len(e.generators) == 1 and not e.generators[0].ifs:
            g = e.generators[0]
            out = []
            for item in self.expr(g.iter, env):
                env2 = dict(env)
                self.assign(g.target, item, env2)
                out.append(self.expr(e.elt, env2))
            return SSeq('list', out)
        if isinstance(e, ast.GeneratorExp) and len(e.generators) == 1 and not e.generators[0].ifs:
            g = e.generators[0]
            out = []
            for item in self.expr(g.iter, env):
                env2 = dict(env)
                self.assign(g.target, item, env2)
                out.append(self.expr(e.elt, env2))
            return SSeq('list', out)
        raise Untranslatable('expression ' + type(e).__name__)

    def to_int(self, v):
        """python int(x)"""
        if isinstance(v, SFloat) and v.dyadic is not None:
            M, k = v.dyadic
            return z3.LShR(M, k)          # truncation toward zero of a non-negative dyadic
        if isinstance(v, SFloat):
            t = v.term
            self.path.obligations.append(('float->int in range', z3.And(z3.Not(z3.fpIsNaN(t)), z3.Not(z3.fpIsInf(t)),
                                                                      z3.fpGEQ(t, z3.FPVal(0.0, z3.Float64())),
                                                                      z3.fpLT(t, z3.FPVal(float(2 ** (W - 1)), z3.Float64())))))
            return z3.fpToUBV(z3.RTZ(), t, z3.BitVecSort(W))
        if isinstance(v, float):
            return int(v)
        return v

    def callexpr(self, e, env):
        f = e.func
        kw = {k.arg: self.expr(k.value, env) for k in e.keywords}
        if isinstance(f, ast.Name):
            name = f.id
            args = [self.expr(a, env) for a in e.args]
            if name == 'deque':
                return SSeq('deque', args[0].elems if args else [])
            if name in ('list', 'tuple'):
                return SSeq('list', list(args[0]) if args else [])
            if name in ('bytes', 'bytearray'):
                if not args:
                    return SSeq('bytes', [])
                if isinstance(args[0], SSeq):
                    return SSeq('bytes', args[0].elems)
                if isinstance(args[0], int):
                    return SSeq('bytes', [0] * args[0])
                raise Untranslatable('bytes()')
            if name == 'len':
                return len(args[0])
            if name == 'range':
                if any(is_sym(a) for a in args):
                    raise Untranslatable('symbolic range')
                return range(*args)
            if name == 'reversed':
                return list(reversed(list(args[0])))
            if name == 'enumerate':
                return list(enumerate(args[0]))
            if name == 'zip':
                return list(zip(*args))
            if name == 'int':
                return self.to_int(args[0]) if args else 0
            if name == 'float':
                return SFloat(self.to_fp(args[0]))
            if name == 'abs' and not is_sym(args[0]):
                return abs(args[0])
            if name == 'ord':
                return self.index(args[0], 0)
            if name == 'chr':
                return SSeq('str', [args[0]])
            if name in ('min', 'max') and not any(is_sym(a) for a in args):
                return (min if name == 'min' else max)(*args)
            if name == 'divmod':
                return (self.binop(ast.FloorDiv(), args[0], args[1]), self.binop(ast.Mod(), args[0], args[1]))
            if name == 'isinstance':
                kind = args[0].kind if isinstance(args[0], SSeq) else ('int' if (is_sym(args[0]) or isinstance(args[0], int)) else type(args[0]).__name__)
                tn = e.args[1]
                names = [x.id for x in tn.elts] if isinstance(tn, ast.Tuple) else [tn.id]
                return kind in names or (kind == 'bytes' and 'bytearray' in names)
            if name == 'hasattr':
                kind = args[0].kind if isinstance(args[0], SSeq) else type(args[0]).__name__
                attr = ''.join(chr(c) for c in args[1].elems)
                return {'decode': kind == 'bytes', 'encode': kind == 'str'}.get(attr, False)
            if name == 'sceil':
                a = args[0]
                if isinstance(a, SFloat) or is_sym(a):
                    raise Untranslatable('sceil of a symbolic value')
                return int(math.ceil(a))
            if name.endswith('Error') or name == 'Exception':
                return None
            if name in self.known or hasattr(self.module, name) and inspect.isfunction(getattr(self.module, name)):
                return self.call(name, args, kw)
            raise Untranslatable('call ' + name)
        if isinstance(f, ast.Attribute):
            if isinstance(f.value, ast.Name) and f.value.id == 'int' and f.attr == 'from_bytes':
                seq = self.expr(e.args[0], env)
                order = self.expr(e.args[1], env) if len(e.args) > 1 else kw.get('byteorder')
                order = ''.join(chr(c) for c in order.elems) if isinstance(order, SSeq) else 'big'
                elems = seq.elems if order == 'big' else list(reversed(seq.elems))
                if len(elems) * 8 > W:
                    raise Untranslatable('from_bytes wider than the model')
                acc = z3.BitVecVal(0, W)
                for b in elems:
                    acc = (acc << 8) | bv(b)
                return acc if elems else 0
            if isinstance(f.value, ast.Name) and f.value.id == 'math' and f.attr == 'ceil':
                a = self.expr(e.args[0], env)
                if isinstance(a, SFloat) or is_sym(a):
                    raise Untranslatable('math.ceil of a symbolic value')
                return int(math.ceil(a))
            if isinstance(f.value, ast.Constant) and f.attr == 'join':
                seq = self.expr(e.args[0], env)
                out = []
                for x in seq:
                    out += x.elems if isinstance(x, SSeq) else [x]
                return SSeq('str' if isinstance(f.value.value, str) else 'bytes', out)
            obj = self.expr(f.value, env)
            args = [self.expr(a, env) for a in e.args]
            if isinstance(obj, SSeq):
                def one(x):
                    return x.elems[0] if isinstance(x, SSeq) and len(x) == 1 else x
                if f.attr == 'appendleft':
                    obj.elems.insert(0, one(args[0]))
                    return None
                if f.attr == 'append':
                    obj.elems.append(one(args[0]))
                    return None
                if f.attr == 'extend':
                    obj.elems.extend(args[0].elems)
                    return None
                if f.attr == 'decode':
                    return SSeq('str', obj.elems)       # ascii subset: code point == byte (inputs are constrained to it)
                if f.attr == 'encode':
                    return SSeq('bytes', obj.elems)
                raise Untranslatable('method ' + f.attr)
            if f.attr == 'to_bytes':
                n = args[0] if args else kw.get('length')
                X = bv(obj)
                if is_sym(n):
                    raise Untranslatable('symbolic to_bytes length')
                if n * 8 < W:
                    self.path.obligations.append(('to_bytes fits (else OverflowError)', z3.LShR(X, n * 8) == 0))
                return SSeq('bytes', [z3.ZeroExt(W - 8, z3.Extract(8 * (n - k) - 1, 8 * (n - k - 1), X)) for k in range(n)])
            if f.attr == 'bit_length' and not is_sym(obj):
                return obj.bit_length()
            if f.attr == 'format':
                return SSeq('str', [])
            raise Untranslatable('method ' + f.attr)
        raise Untranslatable('call form')


def prove(interp, fn, assumptions, goal, name, paths=None):
    """goal(result) -> z3 Bool that must hold on every feasible path (result may be Raised).
    Returns dict(name, status in {'unsat','sat','untranslatable','unknown'}, paths, model?)"""
    import time
    out = dict(name=name, paths=0, queries=0, status='unsat', detail='')
    t0 = time.perf_counter()
    try:
        for pc, res, obligations in (paths if paths is not None else interp.run_all(fn, assumptions)):
            out['paths'] += 1
            g = goal(res)
            conds = [('property', g)] + [(d, o) for (d, o) in obligations]
            if any(c is False for _, c in conds):
                allc = False
            else:
                allc = z3.And(*[c for _, c in conds if c is not True]) if any(c is not True for _, c in conds) else True
            if allc is True:
                continue
            s = z3.Solver()
            s.set('timeout', 300000)
            s.add(*pc)
            if allc is not False:
                s.add(z3.Not(allc))
            out['queries'] += 1
            r = s.check()
            if r == z3.sat:
                m = s.model()
                desc = 'property'
                for d, c in conds:       # which condition fails under this model
                    if c is False or (c is not True and not z3.is_true(m.eval(c, model_completion=True))):
                        desc = d
                        break
                out.update(status='sat', detail=desc, model=m, result=repr(res))
                out['wall_s'] = time.perf_counter() - t0
                return out
            if r == z3.unknown:
                out.update(status='unknown', detail='solver unknown')
                out['wall_s'] = time.perf_counter() - t0
                return out
            out.setdefault('smt2', []).append(s.to_smt2())
    except Untranslatable as ex:
        out.update(status='untranslatable', detail=str(ex))
    out['wall_s'] = time.perf_counter() - t0
    return out
