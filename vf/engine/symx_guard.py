"""proxy-intolerance guard usable from harness modules without importing CrossHair in concrete replays"""
import sys


def guard(ex):
    if 'crosshair' in sys.modules:
        from vf.engine.symx import proxy_guard
        proxy_guard(ex)
