"""Engine E1 `symx`: exhaustive symbolic path exploration of a harness on CrossHair's core.

The harness runs REAL hio code (imported from /repo/src) on symbolic inputs; every branch that depends on a
symbolic value is decided by z3; the path tree persists across iterations; the verdict "holds within the
bounds" is only given when the tree is exhausted with no UNKNOWN leaf.  See DESIGN.md 2.1.
"""
import sys
import time
import traceback
from fractions import Fraction
from time import process_time

import z3
from crosshair.core_and_libs import proxy_for_type  # noqa  (registers library patches)
from crosshair.core import (Patched, ExceptionFilter, deep_realize, realize, NoTracing, ResumedTracing,
                            COMPOSITE_TRACER)
from crosshair.statespace import (StateSpace, StateSpaceContext, RootNode, CallAnalysis, VerificationStatus,
                                  context_statespace)
from crosshair.util import (IgnoreAttempt, UnexploredPath, CrossHairInternal, CrosshairUnsupported,
                            NotDeterministic)
from crosshair.libimpl.builtinslib import ModelingDirector, RealBasedSymbolicFloat, SymbolicInt
import crosshair.statespace as _ss
import crosshair.core as _core

from .base import Failure, ConcreteSym, AssumeFailed, HarnessError, PathWallTimeout, enc, dec
import signal

try:  # CrossHair's own test for "this TypeError is about a proxy, not about the code under test"
    from crosshair.core import suspected_proxy_intolerance_exception
except Exception:  # pragma: no cover
    def suspected_proxy_intolerance_exception(ex):
        return False


# ---------------------------------------------------------------------------------------------------
# fidelity shim for hasattr on proxies (DESIGN 2.1 "proxy fidelity")

def _install_shim():
    orig = _core._PATCH_REGISTRATIONS[hasattr]
    if getattr(orig, '_vf_shim', False):
        return

    def shim_hasattr(obj, name):
        with NoTracing():
            if hasattr(type(obj), '__ch_pytype__') and isinstance(name, str):
                try:
                    t = obj.__ch_pytype__()
                except Exception:
                    t = None
                if t in (bytes, bytearray, str, int, float, bool):
                    return hasattr(t, name)
        return orig(obj, name)
    shim_hasattr._vf_shim = True
    _core._PATCH_REGISTRATIONS[hasattr] = shim_hasattr


_install_shim()


def _install_math_models():
    """pure-Python models for C-level math predicates so that they stay symbolic (solver-decided) instead of
    realising their arguments"""
    import math

    def _isclose(a, b, *, rel_tol=1e-09, abs_tol=0.0):
        if a == b:
            return True
        diff = abs(b - a)
        return (diff <= abs(rel_tol * b)) or (diff <= abs(rel_tol * a)) or (diff <= abs_tol)
    # CrossHair registers math.isclose as "realise the arguments"; replace that registration
    _core._PATCH_REGISTRATIONS[math.isclose] = _isclose


_install_math_models()

STATS = {'queries': 0, 'solver_s': 0.0}
_orig_sat = _ss.solver_is_sat
if not getattr(_orig_sat, '_vf_timed', False):
    def _timed(solver, *exprs):
        t = time.perf_counter()
        try:
            return _orig_sat(solver, *exprs)
        finally:
            STATS['queries'] += 1
            STATS['solver_s'] += time.perf_counter() - t
    _timed._vf_timed = True
    _ss.solver_is_sat = _timed


def proxy_guard(ex):
    """call from `except Exception as ex:` blocks in harnesses that turn exceptions into verdicts: an
    exception that is an artefact of a symbolic proxy becomes an UNKNOWN leaf instead of a verdict"""
    if isinstance(ex, TypeError) and suspected_proxy_intolerance_exception(ex):
        raise CrosshairUnsupported("proxy intolerance: %s" % (ex,))


class Sym:
    """factory for symbolic inputs inside a harness; range/alphabet constraints go straight into z3"""
    concrete = False

    def __init__(self):
        self.inputs = {}      # name -> symbolic or concrete value
        self.tags = {}
        self.notes = {}

    def _reg(self, name, v):
        if name in self.inputs:
            raise HarnessError("duplicate input name %r" % (name,))
        self.inputs[name] = v
        return v

    def int(self, name, lo, hi):
        with NoTracing():
            space = context_statespace()
            v = SymbolicInt(name + space.uniq())
            space.add(v.var >= lo)
            space.add(v.var <= hi)
            return self._reg(name, v)

    def cint(self, name, lo, hi):
        """int chosen by the solver and realised at once (enumeration through the path tree)"""
        with NoTracing():
            if lo > hi:      # empty range: no value to choose, the path stands for nothing
                raise IgnoreAttempt
            space = context_statespace()
            v = SymbolicInt(name + space.uniq())
            space.add(v.var >= lo)
            space.add(v.var <= hi)
            c = realize(v)
            return self._reg(name, c)

    def real(self, name, lo, hi):
        with NoTracing():
            space = context_statespace()
            v = RealBasedSymbolicFloat(name + space.uniq(), float)
            space.add(v.var >= z3.RealVal(Fraction(lo).limit_denominator(1 << 40)))
            space.add(v.var <= z3.RealVal(Fraction(hi).limit_denominator(1 << 40)))
            return self._reg(name, v)

    def bool(self, name):
        with NoTracing():
            v = proxy_for_type(bool, name)
            return self._reg(name, v)

    def cbool(self, name):
        return bool(self.cint(name, 0, 1))

    def _seq(self, typ, name, maxlen, alphabet, minlen):
        with NoTracing():
            space = context_statespace()
            v = proxy_for_type(typ, name)
            inner = v.inner
            space.add(inner._len.var <= maxlen)
            if minlen:
                space.add(inner._len.var >= minlen)
            if alphabet is not None:
                codes = sorted(set(ord(c) if isinstance(c, str) else c for c in alphabet))
                inner._queue_up_to(maxlen)
                for e in inner._new_var_queue:
                    space.add(z3.Or(*[e.var == c for c in codes]))
            return self._reg(name, v)

    def bytes(self, name, maxlen, alphabet=None, minlen=0):
        return self._seq(bytes, name, maxlen, alphabet, minlen)

    def bytearray(self, name, maxlen, alphabet=None, minlen=0):
        return self._seq(bytearray, name, maxlen, alphabet, minlen)

    def str(self, name, maxlen, alphabet=None, minlen=0):
        with NoTracing():
            v = proxy_for_type(str, name)
            self._reg(name, v)
        # LazyIntSymbolicStr: constrain through Python-level ops (few paths when maxlen small)
        n = len(v)
        if n > maxlen or n < minlen:
            raise IgnoreAttempt
        if alphabet is not None:
            for ch in v:
                if ch not in alphabet:
                    raise IgnoreAttempt
        return v

    def dict_int_int(self, name, maxlen):
        """symbolic Dict[int, int] (CrossHair ShellMutableMap over a symbolic array), len <= maxlen"""
        from typing import Dict
        with NoTracing():
            v = proxy_for_type(Dict[int, int], name)
            self._reg(name, v)
        if len(v) > maxlen:
            raise IgnoreAttempt
        return v

    def choice(self, name, seq):
        seq = list(seq)
        return seq[self.cint(name, 0, len(seq) - 1)]

    def assume(self, cond):
        if not cond:
            raise IgnoreAttempt

    def realize(self, v):
        with NoTracing():
            return realize(v)

    def untraced(self, fn):
        """run fn() with the tracer off: for work on fully CONCRETE (already realised) values only, where
        symbolic execution has nothing to decide and would just slow the path down"""
        with NoTracing():
            return fn()

    def constrain_any(self, conds):
        """add the DISJUNCTION of comparisons on symbolic values to the path condition without forking"""
        with NoTracing():
            space = context_statespace()
            space.add(z3.Or(*[self._z3(c) for c in conds]))
            if space.solver.check() != z3.sat:
                raise IgnoreAttempt

    def constrain(self, *conds):
        """add the conjunction of comparisons on symbolic values to the path condition WITHOUT forking
        (an assumption on the inputs, stated in the module's ASSUMPTIONS/BOUNDS)"""
        with NoTracing():
            space = context_statespace()
            for c in conds:
                space.add(self._z3(c))
            if space.solver.check() != z3.sat:
                raise IgnoreAttempt

    def cover(self, tag):
        with NoTracing():
            self.tags[tag] = self.tags.get(tag, 0) + 1

    @staticmethod
    def _z3(c):
        v = getattr(c, 'var', None)
        if v is not None and z3.is_bool(v):
            return v
        if isinstance(c, bool):
            return z3.BoolVal(c)
        raise HarnessError("cover_if needs comparisons of symbolic values, got %r" % (type(c),))

    def cover_if(self, tag, *conds):
        """coverage WITHOUT forking the path: the tag is hit when the conjunction of `conds` (results of
        comparisons on symbolic values, not yet coerced to bool) is satisfiable together with the path
        condition, i.e. the values this path stands for include the situation.  One solver query, no branch."""
        with NoTracing():
            if tag in self.tags:
                return
            space = context_statespace()
            e = z3.And(*[self._z3(c) for c in conds])
            if space.solver.check(e) == z3.sat:
                self.tags[tag] = 1

    def model_str_repr(self):
        """repr() of a symbolic str (f-string `{x!r}` / `{x =}` in hio's error messages) stays symbolic: quote + s + quote,
        instead of CrossHair's realisation, which turns every message into one path per concrete value.  Exact for strings
        free of quotes, backslashes and non-printables; repr() of symbolic bytes becomes a fixed placeholder.  Harnesses use
        it only where the text goes to a message nobody reads (the path-fidelity audit re-runs sampled paths concretely)."""
        with NoTracing():
            from crosshair.libimpl.builtinslib import AnySymbolicStr
            if not getattr(AnySymbolicStr, '_vf_repr', False):
                AnySymbolicStr.__repr__ = lambda s: "'" + s + "'"
                AnySymbolicStr._vf_repr = True
                from crosshair.libimpl.builtinslib import BytesLike, SymbolicBytes, SymbolicByteArray
                for cls in (BytesLike, SymbolicBytes, SymbolicByteArray):      # bytes in messages: a placeholder, never read
                    cls.__repr__ = lambda s: "b'<%d symbolic bytes>'" % len(s)

    def model_int_or(self):
        """`a | b` on symbolic ints: CrossHair realises both operands (one path per value).  Model: identity when one side is
        the concrete 0, x + y when the solver proves the operands occupy disjoint bit ranges (x < 2**k, 2**k divides y), else 64-bit bit-vector OR (z3 int2bv / bv2int) for operands the solver proves in [0, 2**64); otherwise
        CrossHair's realisation.  Exact on that range."""
        with NoTracing():
            from crosshair.libimpl import builtinslib as bl
            import operator as ops
            if getattr(bl, '_vf_or', False):
                return
            from typing import Union

            def _(op, a: Union[SymbolicInt, int], b: Union[SymbolicInt, int]):
                with NoTracing():
                    asym, bsym = isinstance(a, SymbolicInt), isinstance(b, SymbolicInt)
                    if not asym and not isinstance(a, bool) and a == 0:
                        return b
                    if not bsym and not isinstance(b, bool) and b == 0:
                        return a
                    if asym or bsym:
                        space = context_statespace()
                        av = a.var if asym else z3.IntVal(int(a))
                        bv = b.var if bsym else z3.IntVal(int(b))
                        lim = z3.IntVal(2 ** 64)
                        inr = z3.And(av >= 0, av < lim, bv >= 0, bv < lim)
                        if space.solver.check(z3.Not(inr)) == z3.unsat:
                            # disjoint bit ranges (digits being packed): x < 2**k and y a multiple of 2**k  =>  x | y == x + y
                            for (x, y) in ((av, bv), (bv, av)):
                                for k in (6, 12, 18, 24, 30, 36, 8, 16, 32, 1, 2, 3, 4, 5, 7):
                                    p = z3.IntVal(2 ** k)
                                    if space.solver.check(z3.Not(z3.And(x < p, y % p == 0))) == z3.unsat:
                                        return SymbolicInt(x + y)
                            return SymbolicInt(z3.BV2Int(z3.Int2BV(av, 64) | z3.Int2BV(bv, 64)))
                return op(a.__index__(), b.__index__())
            bl.setup_binop(_, {ops.or_})
            bl._BIN_OPS.clear()
            bl._vf_or = True

    def note(self, key, value):
        with NoTracing():
            self.notes[key] = value


def _prefer_dyadic(space, sym):
    """after detach: nudge real inputs to multiples of 1/64 (then 1/4096) when the path condition allows it,
    so that the realised counterexample is exactly representable as an IEEE double and replays identically"""
    solver = space.solver
    for name, v in sym.inputs.items():
        if isinstance(v, RealBasedSymbolicFloat):
            for den in (64, 4096, 1 << 20):
                k = z3.Int('dy_%s_%d' % (name, den))
                solver.push()
                solver.add(v.var * den == z3.ToReal(k))
                if solver.check() == z3.sat:
                    break
                solver.pop()


def _realize_inputs(space, sym):
    out = {}
    for name, v in sym.inputs.items():
        r = deep_realize(v)
        out[name] = r
    return out


def explore(harness, part, budget_s=60.0, per_path_timeout=20.0, max_paths=10 ** 9, known_sigs=(),
            max_new_sigs=3, n_samples=3, audit_max=0, seed=0, twin=False):
    """Explore all paths of harness(sym, part).

    Returns a dict: paths, confirmed, unknown, ignored, exhausted, violations {sig: cex}, tags, nontrivial,
    samples, audit {checked, mismatches}, cpu_s, queries, solver_s, errors.
    A violating path whose signature is in `known_sigs` is recorded (first cex kept) and exploration
    continues; exploration stops early after `max_new_sigs` distinct unknown signatures.
    """
    import random
    known_sigs = set(known_sigs)
    root = RootNode()
    try:
        root.pathing_oracle  # noqa
    except Exception:
        pass
    res = dict(paths=0, confirmed=0, unknown=0, ignored=0, exhausted=False, violations={}, viol_paths=0,
               tags={}, nontrivial=0, samples=[], audit=dict(checked=0, mismatches=[]), errors=[],
               unknown_reasons={})
    wall_path_s = max(5.0, per_path_timeout)

    def _on_alarm(signum, frame):
        raise PathWallTimeout()
    try:
        signal.signal(signal.SIGALRM, _on_alarm)
    except ValueError:      # not in the main thread: no watchdog
        pass
    q0, s0 = STATS['queries'], STATS['solver_s']
    t0 = process_time()
    w0 = time.perf_counter()
    new_sigs = 0
    with Patched():
        while res['paths'] < max_paths:
            if process_time() - t0 > budget_s:
                break
            start = process_time()
            space = StateSpace(execution_deadline=start + per_path_timeout,
                               model_check_timeout=per_path_timeout / 2, search_root=root)
            status = None
            stop = False
            with COMPOSITE_TRACER, NoTracing(), StateSpaceContext(space):
                sym = Sym()
                try:
                    space.extra(ModelingDirector).global_representations[float] = RealBasedSymbolicFloat
                    verdict = None
                    realised = None
                    with ExceptionFilter() as ef, ResumedTracing():
                        try:
                            signal.setitimer(signal.ITIMER_REAL, wall_path_s)
                            try:
                                verdict = harness(sym, part)
                            finally:
                                signal.setitimer(signal.ITIMER_REAL, 0)
                        except PathWallTimeout:
                            # the code under test did not come back: report as a violation candidate (replayed like any other)
                            verdict = Failure('non-termination:path-wall-timeout',
                                              'path exceeded %.0f s wall clock inside the code under test' % wall_path_s)
                        if twin and verdict is None:
                            verdict = Failure('twin', 'reachability twin: final assertion reached')
                        want_sample = len(res['samples']) < n_samples
                        want_audit = res['audit']['checked'] < audit_max
                        if verdict is not None and verdict.classify is None and type(verdict.sig) is str and verdict.sig in res['violations']:
                            pass        # signature already has a realised counterexample: no need to realise again
                        elif verdict is not None or want_sample or want_audit:
                            space.detach_path()
                            with NoTracing():
                                _prefer_dyadic(space, sym)
                            realised = _realize_inputs(space, sym)
                            if verdict is not None:
                                vsig = str(deep_realize(verdict.sig))
                                if verdict.classify is not None:
                                    with NoTracing():
                                        vsig = str(verdict.classify(part, {k: dec(enc(v)) for k, v in realised.items()}))
                                why = verdict.why() if callable(verdict.why) else verdict.why
                                verdict = Failure(vsig, str(deep_realize(why)))
                    if ef.user_exc is not None:
                        exc, tb = ef.user_exc
                        if isinstance(exc, TypeError) and suspected_proxy_intolerance_exception(exc):
                            status = VerificationStatus.UNKNOWN
                            res['unknown'] += 1
                            k = 'proxy-intolerance: %s' % (str(exc)[:80],)
                            res['unknown_reasons'][k] = res['unknown_reasons'].get(k, 0) + 1
                        else:
                            res['errors'].append('harness exception %r\n%s' % (exc, ''.join(tb.format())[-3000:]))
                            stop = True
                    elif ef.ignore:
                        status = None
                        res['ignored'] += 1
                    else:
                        status = VerificationStatus.CONFIRMED
                        res['confirmed'] += 1
                        for t, c in sym.tags.items():
                            res['tags'][t] = res['tags'].get(t, 0) + 1
                        if sym.tags:
                            res['nontrivial'] += 1
                        enc_inputs = None
                        if realised is not None:
                            enc_inputs = {k: enc(v) for k, v in realised.items()}
                        if verdict is not None and verdict.sig == 'non-termination:path-wall-timeout':
                            res['wall_timeouts'] = res.get('wall_timeouts', 0) + 1
                            if res['wall_timeouts'] >= 2:
                                stop = True
                        if verdict is not None:
                            res['viol_paths'] += 1
                            if verdict.sig not in res['violations']:
                                res['violations'][verdict.sig] = dict(sig=verdict.sig, why=verdict.why,
                                                                     inputs=enc_inputs, part=part)
                                if verdict.sig not in known_sigs:
                                    new_sigs += 1
                                    if new_sigs >= max_new_sigs:
                                        stop = True
                        elif realised is not None and len(res['samples']) < n_samples:
                            res['samples'].append(dict(inputs=enc_inputs, tags=sorted(sym.tags),
                                                       notes={k: enc(v) for k, v in sym.notes.items()},
                                                       outcome='property held on this path'))
                        if realised is not None and res['audit']['checked'] < audit_max:
                            # path fidelity audit: same inputs, concrete re-run outside the tracer
                            res['audit']['checked'] += 1
                            try:
                                cs = ConcreteSym({k: dec(v) for k, v in enc_inputs.items()})
                                signal.setitimer(signal.ITIMER_REAL, wall_path_s)
                                try:
                                    cres = harness(cs, part)
                                except PathWallTimeout:
                                    cres = Failure('non-termination:path-wall-timeout', 'concrete re-run timed out')
                                finally:
                                    signal.setitimer(signal.ITIMER_REAL, 0)
                                csig = cres.sig if cres is not None else None
                                if cres is not None and cres.classify is not None:
                                    csig = str(cres.classify(part, dict(cs.inputs)))
                                ssig = verdict.sig if verdict is not None else None
                                if csig is not None and ssig is None:
                                    # the concrete re-run on the real code (no tracer) fails where the traced run did not:
                                    # the concrete run is the ground truth -> a violation candidate (it is replayed like any
                                    # other); recorded as a tracer infidelity too
                                    res['audit'].setdefault('concrete_only_failures', 0)
                                    res['audit']['concrete_only_failures'] += 1
                                    if csig not in res['violations']:
                                        cwhy = cres.why() if callable(cres.why) else cres.why
                                        res['violations'][csig] = dict(sig=csig, why=str(cwhy) + ' [found by the concrete fidelity re-run of a path the tracer passed]',
                                                                       inputs=enc_inputs, part=part)
                                elif csig != ssig or not set(cs.tags) <= set(sym.tags):
                                    res['audit']['mismatches'].append(dict(
                                        inputs=enc_inputs, symbolic=[ssig, sorted(sym.tags)],
                                        concrete=[csig, sorted(cs.tags)]))
                            except AssumeFailed as ex:
                                res['audit']['mismatches'].append(dict(inputs=enc_inputs, error=str(ex)))
                            except Exception as ex:
                                res['audit']['mismatches'].append(dict(inputs=enc_inputs, error=repr(ex)))
                except IgnoreAttempt:
                    status = None
                    res['ignored'] += 1
                except UnexploredPath as ex:
                    status = VerificationStatus.UNKNOWN
                    res['unknown'] += 1
                    k = '%s: %s' % (type(ex).__name__, str(ex)[:80])
                    res['unknown_reasons'][k] = res['unknown_reasons'].get(k, 0) + 1
                except CrossHairInternal as ex:
                    status = VerificationStatus.UNKNOWN
                    res['unknown'] += 1
                    k = 'CrossHairInternal: %s' % (str(ex)[:80],)
                    res['unknown_reasons'][k] = res['unknown_reasons'].get(k, 0) + 1
                except (NotDeterministic, z3.Z3Exception) as ex:
                    res['errors'].append('%s in harness (machinery fault)\n%s' % (type(ex).__name__,
                                                                               traceback.format_exc()[-3000:]))
                    res['paths'] += 1
                    break
                res['paths'] += 1
                _a, exhausted = space.bubble_status(CallAnalysis(status))
            if stop:
                break
            if exhausted:
                res['exhausted'] = True
                break
    res['cpu_s'] = process_time() - t0
    res['wall_s'] = time.perf_counter() - w0
    res['queries'] = STATS['queries'] - q0
    res['solver_s'] = STATS['solver_s'] - s0
    return res
