"""CrossHair-free part of the engine: Failure values, the concrete re-run `Sym`, JSON coding of inputs.

A harness is `harness(sym, part) -> None | Failure`.  Under `symx.explore` the `sym` draws are symbolic
(z3 variables); under `ConcreteSym` the very same harness is re-run on recorded values with no CrossHair
involved at all (replay of counterexamples, path fidelity audit).
"""
import json
from fractions import Fraction


class Failure:
    """a property violation found on one path.  `sig` is the known-findings signature (which call site /
    input class fails), `why` a human description (may mention realised values)."""
    def __init__(self, sig, why='', classify=None):
        self.sig = sig
        # NOTE: `why` must not format symbolic values eagerly (repr of a symbolic realises it IN the path tree and
        # turns the failing region into an enumeration): pass a zero-argument callable, evaluated after detach.
        self.why = why
        # optional classify(part, concrete_inputs) -> sig: computes the signature CONCRETELY from the realised
        # inputs (so that telling a known defect from a new one costs no forks on the symbolic path)
        self.classify = classify

    def __repr__(self):
        return "Failure(%r, %r)" % (self.sig, self.why)


class AssumeFailed(Exception):
    """raised by ConcreteSym.assume when a recorded input does not satisfy the harness assumption"""


class PathWallTimeout(BaseException):
    """raised by the engine's SIGALRM watchdog inside a path that exceeds its wall-clock budget (BaseException so
    that `except Exception` clauses in the code under test cannot swallow it)"""


class HarnessError(Exception):
    """the machinery (not hio) is at fault"""


def enc(v):
    """JSON-encode a realised input value"""
    if isinstance(v, bool) or v is None or isinstance(v, (int, str)):
        return v
    if isinstance(v, Fraction):
        return {'__real__': [v.numerator, v.denominator]}
    if isinstance(v, float):
        if v != v or v in (float('inf'), float('-inf')):
            return {'__float__': repr(v)}
        f = Fraction(v)
        return {'__real__': [f.numerator, f.denominator]}
    if isinstance(v, (bytes, bytearray)):
        return {'__bytes__': list(v)}
    if isinstance(v, (list, tuple)):
        return [enc(x) for x in v]
    if isinstance(v, dict):
        return {'__dict__': [[enc(k), enc(x)] for k, x in v.items()]}
    return {'__repr__': repr(v)}


def dec(v):
    if isinstance(v, list):
        return [dec(x) for x in v]
    if isinstance(v, dict):
        if '__real__' in v:
            n, d = v['__real__']
            return n / d
        if '__float__' in v:
            return float(v['__float__'])
        if '__bytes__' in v:
            return bytes(v['__bytes__'])
        if '__dict__' in v:
            return {dec(k): dec(x) for k, x in v['__dict__']}
        if '__repr__' in v:
            return v['__repr__']
    return v


class ConcreteSym:
    """replays recorded draws by name; same interface as symx.Sym"""
    concrete = True

    def __init__(self, inputs):
        self.inputs = dict(inputs)
        self.used = set()
        self.tags = {}
        self.notes = {}

    def _get(self, name, lo=None, hi=None):
        if name not in self.inputs:
            raise AssumeFailed("no recorded value for input %r" % (name,))
        self.used.add(name)
        v = self.inputs[name]
        if lo is not None and v < lo or hi is not None and v > hi:
            raise AssumeFailed("recorded %r=%r outside [%r,%r]" % (name, v, lo, hi))
        return v

    def int(self, name, lo, hi):
        return int(self._get(name, lo, hi))
    cint = int

    def real(self, name, lo, hi):
        return float(self._get(name, lo, hi))

    def bool(self, name):
        return bool(self._get(name))
    cbool = bool

    def bytes(self, name, maxlen, alphabet=None, minlen=0):
        v = bytes(self._get(name))
        if len(v) > maxlen or len(v) < minlen or (alphabet is not None and any(c not in bytes(alphabet) for c in v)):
            raise AssumeFailed("recorded %r=%r outside bound" % (name, v))
        return v

    def bytearray(self, name, maxlen, alphabet=None, minlen=0):
        return bytearray(self.bytes(name, maxlen, alphabet, minlen))

    def str(self, name, maxlen, alphabet=None, minlen=0):
        v = self._get(name)
        if len(v) > maxlen or len(v) < minlen or (alphabet is not None and any(c not in alphabet for c in v)):
            raise AssumeFailed("recorded %r=%r outside bound" % (name, v))
        return v

    def dict_int_int(self, name, maxlen):
        v = dict(self._get(name))
        if len(v) > maxlen:
            raise AssumeFailed("recorded %r too long" % (name,))
        return v

    def choice(self, name, seq):
        seq = list(seq)
        return seq[self.int(name, 0, len(seq) - 1)]

    def assume(self, cond):
        if not cond:
            raise AssumeFailed("assumption false on recorded inputs")

    def realize(self, v):
        return v

    def untraced(self, fn):
        return fn()

    def constrain_any(self, conds):
        if not any(conds):
            raise AssumeFailed("disjunctive constraint false on recorded inputs")

    def constrain(self, *conds):
        if not all(conds):
            raise AssumeFailed("constraint false on recorded inputs")

    def cover(self, tag):
        self.tags[tag] = self.tags.get(tag, 0) + 1

    def cover_if(self, tag, *conds):
        if all(conds):
            self.cover(tag)

    def model_str_repr(self):
        pass

    def model_int_or(self):
        pass

    def note(self, key, value):
        self.notes[key] = value


def run_concrete(harness, part, inputs, wall_s=30.0):
    """run harness on concrete inputs; returns (Failure|None, tags, notes).  AssumeFailed propagates.
    A run that exceeds wall_s is reported as Failure('non-termination:path-wall-timeout')."""
    import signal
    cs = ConcreteSym(inputs)

    def on_alarm(signum, frame):
        raise PathWallTimeout()
    old = signal.signal(signal.SIGALRM, on_alarm)
    signal.setitimer(signal.ITIMER_REAL, wall_s)
    try:
        res = harness(cs, part)
    except PathWallTimeout:
        res = Failure('non-termination:path-wall-timeout', 'concrete run did not finish within %.0f s' % wall_s)
    finally:
        signal.setitimer(signal.ITIMER_REAL, 0)
        signal.signal(signal.SIGALRM, old)
    if res is not None and callable(res.why):
        res.why = res.why()
    return res, cs.tags, cs.notes


def dump_json(path, obj):
    with open(path, 'w') as f:
        json.dump(obj, f, indent=1, sort_keys=True, default=repr)
        f.write('\n')
