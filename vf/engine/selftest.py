"""seeded-mutant self-test: each property module may list MUTANTS = [(name, relpath, old, new), ...];
each is applied to a scratch copy of the tree under /dev/shm and the quick check must report a VIOLATION."""
import os
import shutil
import subprocess
import sys


def run(pid, mod, tier):
    muts = getattr(mod, 'MUTANTS', [])
    if not muts:
        print("no MUTANTS declared for", pid)
        return 0
    src = os.environ.get('VF_SRC', '/repo/src')
    bad = 0
    for name, rel, old, new in muts:
        root = '/dev/shm/vf-%d' % os.getpid()
        try:
            shutil.copytree(src, os.path.join(root, 'src'), ignore=shutil.ignore_patterns('__pycache__'))
            f = os.path.join(root, 'src', rel)
            s = open(f).read()
            if s.count(old) != 1:
                print("SELFTEST %s/%s: pattern occurs %d times (expected 1) -> mutant not applicable" % (pid, name, s.count(old)))
                bad += 1
                continue
            open(f, 'w').write(s.replace(old, new))
            env = dict(os.environ, VF_SRC=os.path.join(root, 'src'), PYTHONPATH=os.path.join(root, 'src') + ':/verif',
                       VF_EVIDENCE_DIR=os.path.join(root, 'evidence'), VF_REPLAY_DIR=os.path.join(root, 'replays'))
            p = subprocess.run([sys.executable, '-m', 'vf.cli', pid, '--tier', tier], capture_output=True, text=True, env=env, timeout=3000)
            viol = [l for l in p.stdout.splitlines() if l.startswith('VIOLATION') or l.startswith('  signature=')]
            if p.returncode == 1 and viol:
                print("SELFTEST %s/%s: detected :: %s" % (pid, name, ' '.join(viol[:2])[:300]))
            else:
                print("SELFTEST %s/%s: NOT detected (rc=%d)\n%s" % (pid, name, p.returncode, (p.stdout + p.stderr)[-1500:]))
                bad += 1
        finally:
            shutil.rmtree(root, ignore_errors=True)
    return 0 if not bad else 3
