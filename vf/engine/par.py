"""run the partitions of a property in parallel worker processes (spawned, so every worker has its own z3)"""
import importlib
import os
import sys
import time
import traceback
from concurrent.futures import ProcessPoolExecutor, as_completed
import multiprocessing as mp


def load(pid):
    return importlib.import_module('vf.props.' + pid.lower())


def _assert_tree():
    import hio
    src = os.environ.get('VF_SRC', '/repo/src')
    if not os.path.realpath(hio.__file__).startswith(os.path.realpath(src) + os.sep):
        raise RuntimeError("hio imported from %s, expected under %s" % (hio.__file__, src))


def run_part(pid, idx, part, opts):
    """worker entry: explore one partition; never raises"""
    t = time.perf_counter()
    try:
        if os.environ.get('VF_DUMP_AFTER'):
            import faulthandler
            faulthandler.dump_traceback_later(float(os.environ['VF_DUMP_AFTER']), exit=True)
        sys.setrecursionlimit(10000)
        _assert_tree()
        mod = load(pid)
        if hasattr(mod, 'run_partition'):            # engine E2 style modules decide a partition themselves
            res = mod.run_partition(part, opts)
        else:
            from vf.engine import symx
            res = symx.explore(mod.harness, part,
                               budget_s=part.get('budget_s', opts['budget_s']),
                               per_path_timeout=opts.get('per_path_timeout', 20.0),
                               known_sigs=opts.get('known_sigs', ()),
                               max_new_sigs=opts.get('max_new_sigs', 3),
                               n_samples=opts.get('n_samples', 2),
                               audit_max=opts.get('audit_max', 0),
                               seed=opts.get('seed', 0), twin=opts.get('twin', False))
    except BaseException as ex:  # noqa
        res = dict(paths=0, confirmed=0, unknown=0, ignored=0, exhausted=False, violations={}, viol_paths=0,
                   tags={}, nontrivial=0, samples=[], audit=dict(checked=0, mismatches=[]),
                   errors=['worker crashed: %r\n%s' % (ex, traceback.format_exc()[-3000:])],
                   unknown_reasons={}, cpu_s=0.0, queries=0, solver_s=0.0)
    res['idx'] = idx
    res['part'] = part
    res['wall_s'] = time.perf_counter() - t
    return res


def run_all(pid, parts, opts, jobs=None, progress=None):
    jobs = jobs or min(len(parts), int(os.environ.get('VF_JOBS', os.cpu_count() or 4)))
    results = [None] * len(parts)
    if jobs <= 1 or len(parts) == 1:
        for i, p in enumerate(parts):
            results[i] = run_part(pid, i, p, opts)
            if progress:
                progress(results[i])
        return results
    ctx = mp.get_context('spawn')
    # longest partitions first
    order = sorted(range(len(parts)), key=lambda i: -parts[i].get('budget_s', opts['budget_s']))
    with ProcessPoolExecutor(max_workers=jobs, mp_context=ctx) as ex:
        futs = {ex.submit(run_part, pid, i, parts[i], opts): i for i in order}
        for f in as_completed(futs):
            i = futs[f]
            try:
                results[i] = f.result()
            except BaseException as e:  # noqa  (worker died hard)
                results[i] = dict(idx=i, part=parts[i], paths=0, confirmed=0, unknown=0, ignored=0,
                                  exhausted=False, violations={}, viol_paths=0, tags={}, nontrivial=0,
                                  samples=[], audit=dict(checked=0, mismatches=[]),
                                  errors=['worker process failed: %r' % (e,)], unknown_reasons={},
                                  cpu_s=0.0, queries=0, solver_s=0.0, wall_s=0.0)
            if progress:
                progress(results[i])
    return results
