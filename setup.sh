#!/bin/sh
# Build the overlay venv used by all checks (offline; wheelhouse only). Idempotent.
set -e
V=/verif/.venv
if [ ! -x "$V/bin/python" ] || ! "$V/bin/python" -c "import crosshair, z3, jsonschema" 2>/dev/null; then
  rm -rf "$V"
  /venv/bin/python -m venv "$V"
  SP=$("$V/bin/python" -c "import sysconfig; print(sysconfig.get_paths()['purelib'])")
  echo "import site; site.addsitedir('/venv/lib/python3.12/site-packages')" > "$SP/_overlay.pth"
  PIP_NO_INDEX=1 "$V/bin/pip" install -q --no-index --find-links /opt/veriftools/wheels crosshair-tool z3-solver jsonschema
fi
"$V/bin/python" -c "import crosshair, z3, jsonschema; print('verif venv ok: crosshair', crosshair.__version__, 'z3', z3.get_version_string())"
