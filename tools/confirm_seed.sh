#!/bin/sh
# tools/confirm_seed.sh <seed-dir (with patch.diff, demo.py)> <test paths...> : confirm a seeded change in a scratch worktree
d=$1; shift
W=/tmp/wt/confirm-$$
git -C /repo worktree add --detach -q $W HEAD || exit 9
cd $W
run_tests() { PYTHONPATH=$W/src /venv/bin/python -m pytest -q -p no:cacheprovider --timeout=300 -x -q "$@" 2>&1 | tail -3 | tr '\n' ' '; }
PYTHONPATH=$W/src /venv/bin/python $d/demo.py >/dev/null 2>&1; c=$?
[ $# -gt 0 ] && tb=$(PYTHONPATH=$W/src /venv/bin/python -m pytest -q -p no:cacheprovider --timeout=300 "$@" 2>&1 | grep -E "^(FAILED|ERROR)" | sort | tr '\n' ' ')
git apply $d/patch.diff || { echo "PATCH DOES NOT APPLY"; cd /; git -C /repo worktree remove --force $W; exit 9; }
PYTHONPATH=$W/src /venv/bin/python -c "import hio.base.doing, hio.core.http.serving, hio.core.memo.memoing, hio.base.hier.boxing, hio.base.during" || echo "IMPORT FAILS"
PYTHONPATH=$W/src /venv/bin/python $d/demo.py >/dev/null 2>&1; p=$?
[ $# -gt 0 ] && ta=$(PYTHONPATH=$W/src /venv/bin/python -m pytest -q -p no:cacheprovider --timeout=300 "$@" 2>&1 | grep -E "^(FAILED|ERROR)" | sort | tr '\n' ' ')
cd /; git -C /repo worktree remove --force $W
echo "demo clean rc=$c patched rc=$p ; test failures before=[$tb] after=[$ta]"
[ "$c" = 0 ] && [ "$p" != 0 ] && [ "$tb" = "$ta" ] && echo CONFIRMED || echo NOT-CONFIRMED
