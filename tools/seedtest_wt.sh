#!/bin/sh
# tools/seedtest_wt.sh Cxx patch.diff [tier] : run the check against a scratch worktree of /repo with the seeded change applied
# (VF_SRC points the check at the worktree's src; /repo itself is not touched, so several can run side by side)
pid=$1; patch=$2; tier=${3:-quick}
W=/tmp/wt/seedwt-$$
git -C /repo worktree add --detach -q $W HEAD || exit 9
trap 'cd /; git -C /repo worktree remove --force $W; rm -rf /dev/shm/seed-evid-$$ /dev/shm/seed-replay-$$' EXIT INT TERM HUP
git -C $W apply "$patch" || { echo "patch does not apply"; exit 9; }
VF_SRC=$W/src VF_EVIDENCE_DIR=/dev/shm/seed-evid-$$ VF_REPLAY_DIR=/dev/shm/seed-replay-$$ timeout ${SEEDTEST_TIMEOUT:-1500} /verif/check $pid --tier $tier ${SEEDTEST_ARGS}
rc=$?
echo "seedtest_wt rc=$rc (1 = detected)"
exit $rc
