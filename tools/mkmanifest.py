#!/venv/bin/python
"""regenerate MANIFEST.json from the property modules present (run with /verif on sys.path is NOT needed: text scan)"""
import json, os, re, sys
V = '/verif'
props = [json.loads(l) for l in open(V + '/properties.jsonl')]
NA = json.load(open(V + '/tools/not_applicable.json')) if os.path.exists(V + '/tools/not_applicable.json') else {}
META = json.load(open(V + '/tools/check_meta.json'))
checks, na = [], []
for p in props:
    pid = p['id']
    if os.path.exists('%s/vf/props/%s.py' % (V, pid.lower())) and pid in META:
        m = META[pid]
        checks.append(dict(
            property_id=pid,
            quick_cmd='./check %s --tier quick' % pid,
            thorough_cmd='./check %s --tier thorough' % pid,
            evidence_file='/verif/evidence/%s.json' % pid,
            replay_cmd_template='./check %s --replay {path}' % pid,
            engine=m.get('engine', 'symx'),
            level_claimed=dict(category='other', text=m['text'], design_ref=m.get('design_ref', 'DESIGN.md section 4, ' + pid)),
            level_note=m['note'],
            technique=m.get('technique', 'solver-based bounded checking: symbolic execution of the real hio code on CrossHair core, z3 decides every branch, verdict only on an exhausted path tree; counterexamples replayed concretely')))
    else:
        na.append(dict(property_id=pid, reason=NA.get(pid, 'not claimed yet: the solver-based check for this property is still under construction (DESIGN.md section 4); no verdict is offered')))
man = dict(
    version=1,
    setup_cmd='sh /verif/setup.sh',
    hooks=dict(guard='HIO_VERIF', enable='not used: no source hooks are needed (observation by subclassing, collaborators and module-attribute stubs inside the harness)',
               baseline_off_cmd='cd /repo && /venv/bin/python -m pytest -ra -q -p no:cacheprovider --timeout=900 --continue-on-collection-errors',
               source_commits=[], add_only=True),
    engines=[dict(name='symx', path='/verif/vf/engine/symx.py', serves_properties=[c['property_id'] for c in checks if c['engine'] == 'symx'],
                  kind_free_text='exhaustive symbolic path exploration of the real Python code on CrossHair 0.0.110 core with z3; partitions in parallel processes'),
             dict(name='smtpy', path='/verif/vf/engine/smtpy.py', serves_properties=[c['property_id'] for c in checks if c['engine'] == 'smtpy'],
                  kind_free_text='AST -> z3 translation of integer kernels from the real source, unsat = holds within bound')],
    checks=checks,
    notes='All checks import hio from /repo/src (the working tree), never the site-packages copy the pinned tests use. Exit codes: 0 ok / 1 VIOLATION (replayed) / 3 harness error. See DESIGN.md.',
    not_applicable=na)
json.dump(man, open(V + '/MANIFEST.json', 'w'), indent=1)
import jsonschema
jsonschema.validate(man, json.load(open('/root/.vp/MANIFEST.schema.json')))
print('MANIFEST ok: %d checks, %d not_applicable' % (len(checks), len(na)))
