#!/bin/sh
# tools/seedmatrix.sh [ids...] : apply every kept seeded change to /repo in turn, run the check that is meant to catch it, revert.
# One line per seed in /verif/.logs/seedmatrix.txt. rc 1 = detected (VIOLATION), 0 = missed, 9 = patch does not apply.
mkdir -p /verif/.logs
out=/verif/.logs/seedmatrix.txt
for d in ${@:-$(ls /verif/seeded)}; do
  pid=${d%%-*}
  chk=$pid
  case $d in C14-b|C17-b) chk=C13;; esac
  SEEDTEST_TIMEOUT=900 /verif/tools/seedtest.sh $chk /verif/seeded/$d/patch.diff > /verif/.logs/seed.$d.log 2>&1
  rc=$?
  echo "$d check=$chk rc=$rc $(grep -m1 -E '^  signature=' /verif/.logs/seed.$d.log | cut -c1-120)" >> $out
  git -C /repo diff --quiet || { echo "REPO DIRTY after $d" >> $out; git -C /repo checkout -- .; }
done
echo DONE >> $out
