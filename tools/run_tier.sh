#!/bin/sh
# tools/run_tier.sh <tier> <ids...> : run checks one after the other, one summary line each (wall seconds, exit code, last verdict line)
tier=$1; shift
mkdir -p /verif/.logs
for id in "$@"; do
  s=$(date +%s)
  timeout ${RUN_TIER_TIMEOUT:-7200} /verif/check $id --tier $tier > /verif/.logs/$id.$tier.log 2>&1
  rc=$?
  e=$(date +%s)
  echo "$id $tier rc=$rc wall=$((e-s))s :: $(grep -E '^(OK|VIOLATION|INCONCLUSIVE|HARNESS-ERROR)' /verif/.logs/$id.$tier.log | head -3 | cut -c1-200 | tr '\n' '|')" >> /verif/.logs/summary.$tier.txt
done
echo "DONE $tier $*" >> /verif/.logs/summary.$tier.txt
