#!/bin/sh
# tools/seedtest.sh Cxx patch.diff [tier]  : apply a seeded change to /repo, run the check, ALWAYS revert
pid=$1; patch=$2; tier=${3:-quick}
cd /repo || exit 9
git diff --quiet || { echo "repo not clean"; exit 9; }
trap 'git -C /repo checkout -- . ; rm -rf /dev/shm/seed-evid-$$ /dev/shm/seed-replay-$$' EXIT INT TERM HUP
git apply "$patch" || { echo "patch does not apply"; exit 9; }
VF_EVIDENCE_DIR=/dev/shm/seed-evid-$$ VF_REPLAY_DIR=/dev/shm/seed-replay-$$ timeout ${SEEDTEST_TIMEOUT:-1500} /verif/check $pid --tier $tier
rc=$?
git -C /repo checkout -- .
echo "seedtest rc=$rc (1 = detected)"
exit $rc
