#!/bin/sh
# kill leftover check workers (pattern kept out of the caller's command line)
for p in $(pgrep -f "vf\.cli|multiprocessing\.spawn|t_hang"); do [ "$p" != "$$" ] && kill -9 $p 2>/dev/null; done
rm -rf /dev/shm/vf-* /dev/shm/sem.mp-* 2>/dev/null
true
