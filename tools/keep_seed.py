#!/venv/bin/python
"""tools/keep_seed.py Cxx variant "<needs>" "<detected-by / ran>" [tests...] : confirm in scratch worktree then store under /verif/seeded/"""
import json, os, shutil, subprocess, sys
pid, var, needs, ran = sys.argv[1:5]
tests = sys.argv[5:]
src = '/tmp/seed/%s/%s' % (pid, var)
out = subprocess.run(['/verif/tools/confirm_seed.sh', src] + tests, capture_output=True, text=True).stdout.strip().splitlines()
print('\n'.join(out[-2:]))
if not out or out[-1] != 'CONFIRMED':
    sys.exit(1)
dst = '/verif/seeded/%s-%s' % (pid, var)
os.makedirs(dst, exist_ok=True)
for f in ('patch.diff', 'demo.py', 'notes.md'):
    if os.path.exists(os.path.join(src, f)):
        shutil.copy(os.path.join(src, f), dst)
json.dump(dict(property=pid, variant=var, source='independent sub-agent given only the property text and its own scratch worktree',
               needs_to_manifest=needs, confirmed=out[-2], what_i_ran=ran, base_commit=subprocess.run(['git','-C','/repo','rev-parse','--short','HEAD'],capture_output=True,text=True).stdout.strip()),
          open(os.path.join(dst, 'meta.json'), 'w'), indent=1)
print('kept', dst)
